#!/bin/sh
# builds the gosym engine offline (go 1.23.5, golang.org/x/tools v0.29.0 from the module cache)
set -e
cd "$(dirname "$0")/engine"
export GOFLAGS=-mod=mod GOPROXY=off GOSUMDB=off GOTOOLCHAIN=local
mkdir -p ../bin
go build -o ../bin/gosym .
echo "gosym built"
