#!/bin/sh
# usage: tools_confirm_seed.sh <seed-id>...   — confirms seeded/<id> in a scratch worktree: builds, demo fails with / passes without
export GOFLAGS=-mod=mod GOPROXY=off GOSUMDB=off GOTOOLCHAIN=local
for ID in "$@"; do
  S=/verif/seeded/$ID; W=$(mktemp -d /tmp/seedwt-XXXX); rmdir $W
  BASE=${SEED_BASE:-HEAD}
  git -C /repo worktree add -q --detach $W $BASE || { echo "$ID: worktree failed"; continue; }
  cd $W && mkdir zzdemo && cp $S/demo_test.go.txt zzdemo/demo_test.go
  git apply $S/patch.diff || { echo "$ID: patch does not apply"; cd /; git -C /repo worktree remove --force $W; continue; }
  go build ./app/... ./x/... >/dev/null 2>&1 && B=ok || B=FAIL
  go test -vet=off -count=1 ./zzdemo/... >/dev/null 2>&1 && WITH=PASS || WITH=FAIL
  NOK=$(go test -vet=off -count=1 -json ./x/.../types/... 2>/dev/null | grep '"Action":"pass"' | grep -c '"Test"')
  git apply -R $S/patch.diff
  go test -vet=off -count=1 ./zzdemo/... >/dev/null 2>&1 && WITHOUT=PASS || WITHOUT=FAIL
  cd /; git -C /repo worktree remove --force $W
  echo "$ID: build=$B demo_with_patch=$WITH demo_without_patch=$WITHOUT types_tests_passing_with_patch=$NOK"
done
