#!/usr/bin/env python3
"""tools_record_seed.py <seed-id> <agent-out-dir> <obligation> <label> <what_was_run>
   copies an agent's seeded change into /verif/seeded/<seed-id>/ (patch.diff, demo_test.go.txt, agent_meta.json, meta.json)"""
import json, os, shutil, sys
sid, o, ob, label, run = sys.argv[1:6]
d = '/verif/seeded/' + sid
os.makedirs(d, exist_ok=True)
shutil.copy(o + '/patch.diff', d + '/patch.diff')
shutil.copy(o + '/demo_test.go', d + '/demo_test.go.txt')
am = json.load(open(o + '/meta.json'))
json.dump(am, open(d + '/agent_meta.json', 'w'), indent=1)
meta = {"property": am.get("property", sid.split('-')[0])[:3], "breaks": am.get("summary", ""), "needs": am.get("needs", ""), "files": am.get("files", []),
        "author": "independent sub-agent given only the property text and a scratch worktree (on the repaired tree)",
        "confirmed": "pending", "detected_by": {"obligation": ob, "label": label}, "what_was_run": run}
json.dump(meta, open(d + '/meta.json', 'w'), indent=1)
print('recorded', d)
