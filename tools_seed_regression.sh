#!/bin/sh
# usage: tools_seed_regression.sh [seed-id...]  — applies every recorded seeded change in turn and runs the
# obligation that is recorded as detecting it; prints one line per seed (DETECTED / MISSED). Patches /repo: run alone.
cd /verif
IDS="$@"
[ -z "$IDS" ] && IDS=$(ls seeded)
for id in $IDS; do
  ob=$(python3 -c "import json;d=json.load(open('seeded/$id/meta.json'))['detected_by'];print(d['obligation'] if d else '')")
  [ -z "$ob" ] && { echo "$id recorded as MISSED (no detecting obligation)"; continue; }
  prop=$(python3 -c "import json,re;print(json.load(open('seeded/$id/meta.json'))['property'][:3])")
  out=$(./tools_seedtest.sh /verif/seeded/$id/patch.diff $prop quick "$ob\$" 2>&1)
  if echo "$out" | grep -q "^VIOLATION property=$prop"; then echo "$id DETECTED by $ob"; else echo "$id MISSED ($ob): $(echo "$out" | tail -2 | tr '\n' ' ' | cut -c1-160)"; fi
done
