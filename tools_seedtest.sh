#!/bin/sh
# usage: tools_seedtest.sh <patch> <prop> <tier> [obfilter]   — applies a seeded change to /repo, runs one check, reverts
set -u
P=$1; PROP=$2; TIER=$3; OB=${4:-}
git -C /repo apply "$P" || exit 9
./check $PROP $TIER $OB > /tmp/seed_$PROP.out 2>&1
RC=$?
git -C /repo checkout -- .
grep -E "^VIOLATION|^KNOWN-FINDING|INCONCLUSIVE|replay " /tmp/seed_$PROP.out | cut -c1-220
echo "exit=$RC"
