//go:build verif

package zzverif

import (
	"encoding/base64"
	"encoding/hex"
	"encoding/json"
	"fmt"
	"regexp"
	"strings"

	saodidparser "github.com/SaoNetwork/sao-did/parser"
	didkeeper "github.com/SaoNetwork/sao/x/did/keeper"
	didtypes "github.com/SaoNetwork/sao/x/did/types"
	"github.com/SaoNetwork/sao/zzverif/sym"
	"github.com/cosmos/cosmos-sdk/crypto/keys/secp256k1"
	sdk "github.com/cosmos/cosmos-sdk/types"
	tmcrypto "github.com/tendermint/tendermint/crypto"
)

// ---- C17: DID registry integrity (x/did Binding, Update, UpdatePaymentAddress)
//
// Outside the claim: the EIP-191 branch of the binding proof (account ids of network "eip155" are assumed
// away; go-ethereum's recovery is not encoded). secp256k1 verification, sha256, hex and base64 are
// uninterpreted functions of their inputs; the CAIP-10 pattern is an uninterpreted predicate with the
// structural axiom "three ':'-free, non-empty parts".

const cosmosPrefix = "cosmos:" + ChainID + ":"

// cosmosSigOK is the reference reading of "signed by the account's own key": the signature string carries a
// secp256k1 public key whose address is the account and a valid signature over the sign-doc of the message.
func cosmosSigOK(addr, message, signature string) bool {
	sig := strings.Split(signature, ".")
	if len(sig) < 3 || sig[0] != "tendermint/PubKeySecp256k1" {
		return false
	}
	pk, err := base64.StdEncoding.DecodeString(sig[1])
	if err != nil {
		return false
	}
	pub := secp256k1.PubKey{Key: pk}
	a, err := sdk.Bech32ifyAddressBytes("sao", pub.Address())
	if err != nil || a != addr {
		return false
	}
	sb, err := base64.StdEncoding.DecodeString(sig[2])
	if err != nil {
		return false
	}
	return pub.VerifySignature(didkeeper.GetSignData(addr, message), sb)
}

// splitAccountId: network, chain, address of a CAIP-10 account id (ok = exactly three parts).
func splitAccountId(accId string) (string, string, string, bool) {
	p := strings.Split(accId, ":")
	if len(p) != 3 {
		return "", "", "", false
	}
	return p[0], p[1], p[2], true
}

func notEip155(accId string) bool { return !strings.HasPrefix(accId, "eip155:") }

// ---- the registry invariants, each for one arbitrary probe key

// invList(x): every account DID listed under DID x has its auth record, its account id, and that account
// is bound to x; no account DID is listed twice and no account is listed under two account DIDs.
func invList(w *World, x string) bool {
	al, found := w.Did.GetAccountList(w.Ctx, x)
	if !found {
		return true
	}
	r := true
	accs := make([]string, len(al.AccountDids))
	for i, ad := range al.AccountDids {
		aid, f1 := w.Did.GetAccountId(w.Ctx, ad)
		_, f3 := w.Did.GetAccountAuth(w.Ctx, ad)
		if !f1 || !f3 {
			return false
		}
		accs[i] = aid.AccountId
		d, f2 := w.Did.GetDid(w.Ctx, aid.AccountId)
		r = sym.And(r, f2, d.Did == x)
		for j := 0; j < i; j++ {
			// no account DID twice, no account under two account DIDs
			r = sym.And(r, al.AccountDids[j] != ad, accs[j] != accs[i])
		}
	}
	return r
}

// invBound(acc): a bound account appears in the account list of its DID.
func invBound(w *World, acc string) bool {
	d, found := w.Did.GetDid(w.Ctx, acc)
	if !found {
		return true
	}
	al, f := w.Did.GetAccountList(w.Ctx, d.Did)
	if !f {
		return false
	}
	r := false
	for _, ad := range al.AccountDids {
		aid, f1 := w.Did.GetAccountId(w.Ctx, ad)
		r = sym.Or(r, sym.And(f1, aid.AccountId == acc))
	}
	return r
}

func didMethod(did string) string {
	p, err := saodidparser.Parse(did)
	if err != nil {
		return ""
	}
	return p.Method
}

// invPaySid(d): the payment address of a sid DID is an account on this chain that is bound to it.
func invPaySid(w *World, d string) bool {
	if didMethod(d) != "sid" {
		return true
	}
	pa, found := w.Did.GetPaymentAddress(w.Ctx, d)
	if !found {
		return true
	}
	b, f := w.Did.GetDid(w.Ctx, cosmosPrefix+pa.Address)
	return sym.And(f, b.Did == d)
}

// invKid(a): an address linked to a key DID is that DID's payment address.
func invKid(w *World, a string) bool {
	k, found := w.Did.GetKid(w.Ctx, a)
	if !found {
		return true
	}
	if didMethod(k.Kid) != "key" {
		return false // only key DIDs are linked to an address
	}
	pa, f := w.Did.GetPaymentAddress(w.Ctx, k.Kid)
	return sym.And(f, pa.Address == a)
}

// invPayKey(k): the payment address of a key DID is linked back to it.
func invPayKey(w *World, k string) bool {
	if didMethod(k) != "key" {
		return true
	}
	pa, found := w.Did.GetPaymentAddress(w.Ctx, k)
	if !found {
		return true
	}
	kid, f := w.Did.GetKid(w.Ctx, pa.Address)
	return sym.And(f, kid.Kid == k)
}

func didBounds(list, remove, update int) {
	sym.SetBound("AccountList.AccountDids", list)
	sym.SetBound(".RemoveAccountDid", remove)
	sym.SetBound(".UpdateAccountAuth", update)
}

// ---- Binding

func fillBinding(name string) *didtypes.MsgBinding {
	var msg didtypes.MsgBinding
	sym.Fill(name, &msg)
	sym.Assume(msg.Proof != nil && msg.AccountAuth != nil) // the handler dereferences both: nil aborts the tx
	sym.Assume(notEip155(msg.AccountId))
	return &msg
}

func runBinding(w *World, msg *didtypes.MsgBinding) bool {
	var err error
	panicked, _ := sym.Catch(func() { _, err = w.DidMsg.Binding(sdk.WrapSDKContext(w.Ctx), msg) })
	return !panicked && err == nil
}

// C17 / T-binding: a binding is created only for an account that was unbound, with a proof signed by the
// account's own key, whose timestamp is within the freshness window of the block time, and - once the DID
// exists - by a transaction of an account already bound to that DID; afterwards the tables agree.
func Ob_C17_Binding() {
	w := NewWorld()
	msg := fillBinding("msg")
	snap := w.Snapshot()
	if !runBinding(w, msg) {
		return
	}
	sym.Cover("C17.binding-succeeds")
	proof, did, accId := msg.Proof, msg.Proof.Did, msg.AccountId
	var wasBound, sidExisted, creatorBound bool
	var cd didtypes.Did
	w.At(snap, func() {
		_, wasBound = w.Did.GetDid(w.Ctx, accId)
		_, sidExisted = w.Did.GetSidDocumentVersion(w.Ctx, msg.RootDocId)
		cd, creatorBound = w.Did.GetDid(w.Ctx, cosmosPrefix+msg.Creator)
	})
	sym.Assert("C17.binding-account-was-unbound", !wasBound)
	net, chain, addr, ok := splitAccountId(accId)
	sym.Assert("C17.binding-account-id-wellformed", ok)
	sym.Assert("C17.binding-cosmos-account-of-this-chain", net == "cosmos" && chain == ChainID)
	sym.Assert("C17.binding-proof-signed-by-account", cosmosSigOK(addr, proof.Message, proof.Signature))
	sym.Assert("C17.binding-proof-fresh", proof.Timestamp+900 >= uint64(w.Ctx.BlockTime().Unix()))
	sym.Assert("C17.binding-did-names-root-doc", did == "did:sid:"+msg.RootDocId)
	sym.Assert("C17.binding-existing-did-needs-bound-creator", !sidExisted || (creatorBound && cd.Did == did))
	// the tables agree afterwards
	d, f := w.Did.GetDid(w.Ctx, accId)
	sym.Assert("C17.binding-did-table", f && d.Did == did)
	al, f2 := w.Did.GetAccountList(w.Ctx, did)
	sym.Assert("C17.binding-account-listed", f2 && inList(msg.AccountAuth.AccountDid, al.AccountDids))
	aid, f3 := w.Did.GetAccountId(w.Ctx, msg.AccountAuth.AccountDid)
	sym.Assert("C17.binding-account-id-table", f3 && aid.AccountId == accId)
	if !sidExisted {
		pa, f4 := w.Did.GetPaymentAddress(w.Ctx, did)
		var hadPay bool
		w.At(snap, func() { _, hadPay = w.Did.GetPaymentAddress(w.Ctx, did) })
		sym.Assert("C17.binding-first-account-pays", hadPay || (f4 && pa.Address == addr))
	}
}

// C17 / D-proof-replay: one signed proof (same message, same signature) is not accepted for two different
// DIDs, nor with two different timestamps: the signature must cover what the account consents to.
func Ob_C17_Binding_ProofReplay() {
	w := NewWorld()
	sym.SetBound("AccountList.AccountDids", 0)
	m1, m2 := fillBinding("msg1"), fillBinding("msg2")
	addr := sym.String("account")
	_, e := sdk.AccAddressFromBech32(addr)
	sym.Assume(e == nil)
	m1.AccountId = cosmosPrefix + addr
	m1.Proof.Signature = validProofFor(addr, m1.Proof.Message)
	// the second submission re-uses the first one's proof for something else
	m2.AccountId = m1.AccountId
	m2.Proof.Message, m2.Proof.Signature = m1.Proof.Message, m1.Proof.Signature
	sym.Assume(m1.Proof.Did != m2.Proof.Did || m1.Proof.Timestamp != m2.Proof.Timestamp)
	snap := w.Snapshot()
	ok1 := runBinding(w, m1)
	w.Rollback(snap)
	ok2 := runBinding(w, m2)
	sym.Cover("C17.proof-replay-two-runs")
	if ok1 && ok2 {
		sym.AssertKF("C17.proof-covers-the-did", m1.Proof.Did == m2.Proof.Did, sym.KF("KF-C17-1", true))
		sym.AssertKF("C17.proof-covers-the-timestamp", m1.Proof.Timestamp == m2.Proof.Timestamp, sym.KF("KF-C17-1", true))
	}
}

// C17 / I under Binding: the registry invariants of arbitrary probe keys are preserved.
func Ob_C17_Binding_InvList() {
	w := NewWorld()
	didBounds(1, 0, 0)
	msg := fillBinding("msg")
	x := sym.String("probe")
	sym.Assume(invList(w, x) && invList(w, msg.Proof.Did))
	if !runBinding(w, msg) {
		return
	}
	sym.Cover("C17.binding-inv-list")
	sym.Assert("C17.inv-list-after-binding", invList(w, x))
}

func Ob_C17_Binding_InvBound() {
	w := NewWorld()
	didBounds(1, 0, 0)
	msg := fillBinding("msg")
	acc := sym.String("probe")
	sym.Assume(invBound(w, acc) && invList(w, msg.Proof.Did))
	if !runBinding(w, msg) {
		return
	}
	sym.Cover("C17.binding-inv-bound")
	sym.Assert("C17.inv-bound-after-binding", invBound(w, acc))
}

func Ob_C17_Binding_InvPay() {
	w := NewWorld()
	didBounds(1, 0, 0)
	msg := fillBinding("msg")
	d, a, k := sym.String("probeDid"), sym.String("probeAddr"), sym.String("probeKeyDid")
	sym.Assume(invPaySid(w, d) && invKid(w, a) && invPayKey(w, k))
	snap := w.Snapshot()
	if !runBinding(w, msg) {
		return
	}
	sym.Cover("C17.binding-inv-pay")
	sym.Assert("C17.inv-pay-sid-after-binding", invPaySid(w, d))
	sym.Assert("C17.inv-kid-after-binding", invKid(w, a))
	sym.Assert("C17.inv-pay-key-after-binding", invPayKey(w, k))
	sym.Assert("C17.binding-never-writes-kid", len(w.WrittenString(snap, "did", didtypes.KidKeyPrefix, "/")) == 0)
}

// ---- Update (key rotation / unbinding)

func fillUpdate() *didtypes.MsgUpdate {
	var msg didtypes.MsgUpdate
	sym.SetBound(".Keys", 1)
	sym.Fill("msg", &msg)
	for _, k := range msg.Keys {
		sym.Assume(k != nil)
	}
	// the new document id is the hash of the new keys (the handler rejects anything else; building it the way
	// clients do makes counterexamples replay against the real hash)
	msg.NewDocId = refDocId(msg.Keys, msg.Timestamp)
	msg.Did = plainDidOf("did", 1) // key rotation concerns sid documents
	return &msg
}

// plainDidOf: did:sid:<id> / did:key:<id> / did:web:<id> with a plain id (no path, query, fragment or
// parameters) - the DIDs this chain creates; other forms are outside the claim of the rotation and
// payment-address obligations.
func plainDidOf(name string, methods int) string {
	id := sym.String(name + ".id")
	ok, _ := regexp.MatchString("^[a-zA-Z0-9._-]+$", id)
	sym.Assume(ok)
	m := sym.Int(name + ".method")
	sym.Assume(m >= 0 && m < methods)
	return []string{"did:sid:", "did:key:", "did:web:"}[sym.ConcreteInt(m, 0, 2)] + id
}

func runUpdate(w *World, msg *didtypes.MsgUpdate) bool {
	var err error
	panicked, _ := sym.Catch(func() { _, err = w.DidMsg.Update(sdk.WrapSDKContext(w.Ctx), msg) })
	return !panicked && err == nil
}

func updateBounds() {
	if sym.Tier() == "quick" {
		didBounds(2, 1, 1)
	} else {
		didBounds(3, 2, 2)
	}
}

// C17 / T-unbind: a rotation is made by an account bound to the DID; it never unbinds the payment account;
// exactly the removed accounts stop being bound and listed, every other account stays.
func Ob_C17_Update() {
	w := NewWorld()
	updateBounds()
	msg := fillUpdate()
	did := msg.Did
	sym.Assume(invList(w, did))
	var before didtypes.AccountList
	var pay didtypes.PaymentAddress
	var hadPay bool
	before, _ = w.Did.GetAccountList(w.Ctx, did)
	pay, hadPay = w.Did.GetPaymentAddress(w.Ctx, did)
	beforeDids := append([]string{}, before.AccountDids...)
	accOf := make([]string, len(beforeDids))
	for i, ad := range beforeDids {
		aid, _ := w.Did.GetAccountId(w.Ctx, ad)
		accOf[i] = aid.AccountId
	}
	cd, creatorBound := w.Did.GetDid(w.Ctx, cosmosPrefix+msg.Creator)
	if !runUpdate(w, msg) {
		return
	}
	sym.Cover("C17.update-succeeds")
	sym.Assert("C17.update-by-bound-account", creatorBound && cd.Did == did)
	sym.Assert("C17.update-fresh", msg.Timestamp+900 >= uint64(w.Ctx.BlockTime().Unix()))
	sym.Assert("C17.update-did-has-payment-address", hadPay)
	after, f := w.Did.GetAccountList(w.Ctx, did)
	sym.Assert("C17.update-keeps-account-list", f && len(after.AccountDids) >= 1)
	for i, ad := range beforeDids {
		removed := inList(ad, msg.RemoveAccountDid)
		_, stillBound := w.Did.GetDid(w.Ctx, accOf[i])
		_, hasId := w.Did.GetAccountId(w.Ctx, ad)
		_, hasAuth := w.Did.GetAccountAuth(w.Ctx, ad)
		listed := inList(ad, after.AccountDids)
		if removed {
			sym.Assert("C17.update-payment-account-not-unbound", accOf[i] != cosmosPrefix+pay.Address)
			sym.Assert("C17.update-removed-account-unbound", !stillBound && !hasId && !hasAuth && !listed)
		} else {
			sym.Assert("C17.update-kept-account-stays", stillBound && hasId && hasAuth && listed)
		}
	}
	for _, ad := range after.AccountDids {
		sym.Assert("C17.update-adds-no-account", inList(ad, beforeDids))
	}
}

func Ob_C17_Update_InvList() {
	w := NewWorld()
	updateBounds()
	msg := fillUpdate()
	x := sym.String("probe")
	sym.Assume(invList(w, x) && invList(w, msg.Did))
	if !runUpdate(w, msg) {
		return
	}
	sym.Cover("C17.update-inv-list")
	sym.Assert("C17.inv-list-after-update", invList(w, x))
}

func Ob_C17_Update_InvBound() {
	w := NewWorld()
	updateBounds()
	msg := fillUpdate()
	acc := sym.String("probe")
	sym.Assume(invBound(w, acc) && invList(w, msg.Did))
	if !runUpdate(w, msg) {
		return
	}
	sym.Cover("C17.update-inv-bound")
	sym.Assert("C17.inv-bound-after-update", invBound(w, acc))
}

func Ob_C17_Update_InvPay() {
	w := NewWorld()
	updateBounds()
	msg := fillUpdate()
	d := sym.String("probeDid")
	sym.Assume(invPaySid(w, d) && invList(w, msg.Did))
	snap := w.Snapshot()
	if !runUpdate(w, msg) {
		return
	}
	sym.Cover("C17.update-inv-pay")
	sym.Assert("C17.inv-pay-sid-after-update", invPaySid(w, d))
	sym.Assert("C17.update-never-writes-payment-tables",
		len(w.WrittenString(snap, "did", didtypes.KidKeyPrefix, "/")) == 0 &&
			len(w.WrittenString(snap, "did", didtypes.PaymentAddressKeyPrefix, "/")) == 0)
}

// ---- UpdatePaymentAddress

// C17 / T-key-did, T-sid-pay: a key DID's payment address is written once, by that address itself, and
// links an address that had no key DID; a sid DID's payment address is changed only by an account bound to
// it and only to an account of this chain bound to it. Nothing but the two payment tables is written.
func Ob_C17_UpdatePaymentAddress() {
	w := NewWorld()
	var msg didtypes.MsgUpdatePaymentAddress
	sym.Fill("msg", &msg)
	msg.Did = plainDidOf("did", 3)
	d, a, k := sym.String("probeDid"), sym.String("probeAddr"), sym.String("probeKeyDid")
	sym.Assume(invPaySid(w, d) && invKid(w, a) && invPayKey(w, k))
	snap := w.Snapshot()
	var err error
	panicked, _ := sym.Catch(func() { _, err = w.DidMsg.UpdatePaymentAddress(sdk.WrapSDKContext(w.Ctx), &msg) })
	if panicked || err != nil {
		return
	}
	sym.Cover("C17.update-payment-address-succeeds")
	method := didMethod(msg.Did)
	net, chain, addr, ok := splitAccountId(msg.AccountId)
	sym.Assert("C17.pay-account-of-this-chain", ok && net == "cosmos" && chain == ChainID)
	var hadPay, hadKid, creatorBound, newBound bool
	var cd, nd didtypes.Did
	w.At(snap, func() {
		_, hadPay = w.Did.GetPaymentAddress(w.Ctx, msg.Did)
		_, hadKid = w.Did.GetKid(w.Ctx, addr)
		cd, creatorBound = w.Did.GetDid(w.Ctx, cosmosPrefix+msg.Creator)
		nd, newBound = w.Did.GetDid(w.Ctx, cosmosPrefix+addr)
	})
	pa, f := w.Did.GetPaymentAddress(w.Ctx, msg.Did)
	sym.Assert("C17.pay-recorded", f && pa.Address == addr)
	if method == "key" {
		sym.Assert("C17.key-did-payment-address-set-once", !hadPay)
		sym.Assert("C17.key-did-payment-address-self-set", addr == msg.Creator)
		sym.Assert("C17.address-had-no-key-did", !hadKid)
		kid, f2 := w.Did.GetKid(w.Ctx, addr)
		sym.Assert("C17.key-did-linked", f2 && kid.Kid == msg.Did)
	} else {
		sym.Assert("C17.only-sid-or-key", method == "sid")
		sym.Assert("C17.sid-payment-change-by-bound-account", creatorBound && cd.Did == msg.Did)
		sym.Assert("C17.sid-payment-account-is-bound", newBound && nd.Did == msg.Did)
	}
	sym.Assert("C17.inv-pay-sid-after-pay-update", invPaySid(w, d))
	sym.Assert("C17.inv-kid-after-pay-update", invKid(w, a))
	sym.Assert("C17.inv-pay-key-after-pay-update", invPayKey(w, k))
	sym.Assert("C17.pay-update-writes-only-payment-tables",
		!w.WrittenOutside(snap, "did", didtypes.PaymentAddressKeyPrefix, didtypes.KidKeyPrefix))
}

// ---- C01 / D-map-order on the DID handlers: two executions of the same Binding / Update from the same
// state agree (the document id is computed from a Go map of the keys).
func Ob_C01C17_Binding_TwoRuns() {
	w := NewWorld()
	sym.SetBound("AccountList.AccountDids", 0)
	sym.SetBound(".Keys", 2)
	msg := fillBinding("msg")
	for _, k := range msg.Keys {
		sym.Assume(k != nil)
	}
	// a client that did everything right: signed proof, document id computed the documented way
	addr := sym.String("account")
	_, e := sdk.AccAddressFromBech32(addr)
	sym.Assume(e == nil)
	msg.AccountId = cosmosPrefix + addr
	msg.Proof.Signature = validProofFor(addr, msg.Proof.Message)
	msg.RootDocId = refDocId(msg.Keys, msg.Proof.Timestamp)
	msg.Proof.Did = "did:sid:" + msg.RootDocId
	_, sidExists := w.Did.GetSidDocumentVersion(w.Ctx, msg.RootDocId)
	sym.Assume(!sidExists) // the branch that computes the document id
	snap := w.Snapshot()
	ok1 := runBinding(w, msg)
	w.Rollback(snap)
	ok2 := runBinding(w, msg)
	sym.Cover("C01.binding-two-runs")
	sym.Assert("C01.binding-same-result", ok1 == ok2)
	if ok1 {
		sym.Cover("C01.binding-two-runs-succeed")
	}
}

// refDocId: the document id as clients compute it (JSON object of the keys in sorted order + timestamp, hashed).
func refDocId(keys []*didtypes.PubKey, ts uint64) string {
	m := map[string]string{}
	for _, k := range keys {
		m[k.Name] = k.Value
	}
	b, _ := json.Marshal(m)
	return hex.EncodeToString(tmcrypto.Sha256([]byte(string(b) + fmt.Sprint(ts))))
}

func Ob_C01C17_CalculateDocId_TwoRuns() {
	var keys []*didtypes.PubKey
	sym.SetBound("keys", 3)
	sym.Fill("keys", &keys)
	for _, k := range keys {
		sym.Assume(k != nil) // decoded repeated message fields have no nil elements
	}
	ts := sym.Uint64("timestamp")
	id1, e1 := didkeeper.CalculateDocId(keys, ts)
	id2, e2 := didkeeper.CalculateDocId(keys, ts)
	sym.Cover("C01.docid-two-runs")
	sym.Assert("C01.docid-deterministic", id1 == id2 && (e1 == nil) == (e2 == nil))
}

// honestBinding: a binding request as a well-behaved client builds it - the account really signed the proof
// message and, for a new DID, the document id is the hash of the keys. (Success needs exactly this, by
// Ob_C17_Binding; building it makes every counterexample on a success path replay against the real code.)
func honestBinding(w *World, name string) (*didtypes.MsgBinding, string) {
	msg := fillBinding(name)
	for _, k := range msg.Keys {
		sym.Assume(k != nil)
	}
	addr := sym.String(name + ".account")
	_, e := sdk.AccAddressFromBech32(addr)
	sym.Assume(e == nil)
	msg.AccountId = cosmosPrefix + addr
	msg.Proof.Signature = validProofFor(addr, msg.Proof.Message)
	if sym.Bool(name + ".newDid") {
		msg.RootDocId = refDocId(msg.Keys, msg.Proof.Timestamp)
		msg.Proof.Did = "did:sid:" + msg.RootDocId
	}
	return msg, addr
}

// C17 / T-binding on well-formed requests (replayable): what a successful binding leaves in the tables.
func Ob_C17_Binding_Honest() {
	w := NewWorld()
	didBounds(1, 0, 0)
	sym.SetBound(".Keys", 1)
	msg, addr := honestBinding(w, "msg")
	snap := w.Snapshot()
	if !runBinding(w, msg) {
		return
	}
	sym.Cover("C17.honest-binding-succeeds")
	did, accId := msg.Proof.Did, msg.AccountId
	var wasBound, sidExisted, creatorBound, hadPay bool
	var cd didtypes.Did
	w.At(snap, func() {
		_, wasBound = w.Did.GetDid(w.Ctx, accId)
		_, sidExisted = w.Did.GetSidDocumentVersion(w.Ctx, msg.RootDocId)
		cd, creatorBound = w.Did.GetDid(w.Ctx, cosmosPrefix+msg.Creator)
		_, hadPay = w.Did.GetPaymentAddress(w.Ctx, did)
	})
	sym.Assert("C17.binding-account-was-unbound", !wasBound)
	sym.Assert("C17.binding-proof-fresh", msg.Proof.Timestamp+900 >= uint64(w.Ctx.BlockTime().Unix()))
	sym.Assert("C17.binding-existing-did-needs-bound-creator", !sidExisted || (creatorBound && cd.Did == did))
	d, f := w.Did.GetDid(w.Ctx, accId)
	sym.Assert("C17.binding-did-table", f && d.Did == did)
	al, f2 := w.Did.GetAccountList(w.Ctx, did)
	sym.Assert("C17.binding-account-listed", f2 && inList(msg.AccountAuth.AccountDid, al.AccountDids))
	aid, f3 := w.Did.GetAccountId(w.Ctx, msg.AccountAuth.AccountDid)
	sym.Assert("C17.binding-account-id-table", f3 && aid.AccountId == accId)
	if !sidExisted {
		sym.Cover("C17.honest-binding-new-did")
		pa, f4 := w.Did.GetPaymentAddress(w.Ctx, did)
		sym.Assert("C17.binding-first-account-pays", hadPay || (f4 && pa.Address == addr))
	}
	pa, fp := w.Did.GetPaymentAddress(w.Ctx, did)
	if fp {
		b, fb := w.Did.GetDid(w.Ctx, cosmosPrefix+pa.Address)
		sym.Assert("C17.payment-account-is-bound", hadPay || (fb && b.Did == did))
	}
}

// C17 / forged proofs (replayable): a proof signed by another key, or signed over another message, is rejected.
func Ob_C17_Binding_Forged() {
	w := NewWorld()
	didBounds(0, 0, 0)
	sym.SetBound(".Keys", 1)
	msg := fillBinding("msg")
	for _, k := range msg.Keys {
		sym.Assume(k != nil)
	}
	addr, other := sym.String("account"), sym.String("otherAccount")
	_, e1 := sdk.AccAddressFromBech32(addr)
	_, e2 := sdk.AccAddressFromBech32(other)
	sym.Assume(e1 == nil && e2 == nil && addr != other)
	msg.AccountId = cosmosPrefix + addr
	kind := sym.Int("forgery")
	sym.Assume(kind == 0 || kind == 1)
	if kind == 0 {
		msg.Proof.Signature = validProofFor(other, msg.Proof.Message) // somebody else's signature
	} else {
		signed := sym.String("signedMessage")
		sym.Assume(signed != msg.Proof.Message)
		msg.Proof.Signature = validProofFor(addr, signed) // the account signed something else
	}
	msg.RootDocId = refDocId(msg.Keys, msg.Proof.Timestamp)
	msg.Proof.Did = "did:sid:" + msg.RootDocId
	ok := runBinding(w, msg)
	sym.Cover("C17.forged-proof-tried")
	sym.Assert("C17.forged-proof-rejected", !ok)
}
