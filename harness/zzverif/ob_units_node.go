//go:build verif

package zzverif

import (
	nodetypes "github.com/SaoNetwork/sao/x/node/types"
	ordertypes "github.com/SaoNetwork/sao/x/order/types"
	"github.com/SaoNetwork/sao/zzverif/sym"
	sdk "github.com/cosmos/cosmos-sdk/types"
)

// pendingReward(p) = Reward + Acc*Total - RewardDebt: what the node escrow owes the provider in block rewards.
func pendingReward(p nodetypes.Pledge, pool nodetypes.Pool) sdk.Dec {
	return p.Reward.Amount.Add(pool.AccRewardPerByte.Amount.MulInt64(p.TotalStorage)).Sub(p.RewardDebt.Amount)
}

func debtOf(w *World, sp string) sdk.Int {
	d, f := w.Node.GetPledgeDebt(w.Ctx, sp)
	if !f {
		return sdk.ZeroInt()
	}
	return d.Debt.Amount
}

// C07/C08/C14 ShardRelease: pays shard.Pledge minus repaid debt to the shard's provider only, lowers the
// provider's counters by exactly this shard, settles pending block reward first.
func Ob_C02C07C08C14_ShardRelease() {
	w := NewWorld()
	var s ordertypes.Shard
	sym.Fill("shard", &s)
	sym.Assume(InvShard(s))
	p0, had := w.Node.GetPledge(w.Ctx, s.Sp)
	pool, hasPool := w.Node.GetPool(w.Ctx)
	debt0 := debtOf(w, s.Sp)
	// cross-record invariant of a live shard: its collateral and bytes are inside the provider's counters
	sym.Assume(!had || (p0.TotalShardPledged.Amount.GTE(s.Pledge.Amount) && p0.UsedStorage >= int64(s.Size_)))
	snap, nT := w.Snapshot(), w.TransferCount()
	err := w.Node.ShardRelease(w.Ctx, sdk.MustAccAddressFromBech32(s.Sp), &s)
	ts := w.TransfersSince(nT)
	if err != nil {
		sym.Assert("C07.release-error-pays-nothing-new", true)
		return
	}
	sym.Cover("C07.shardrelease")
	sym.Assert("C07.release-needs-pledge-and-pool", had && hasPool)
	p1, _ := w.Node.GetPledge(w.Ctx, s.Sp)
	debt1 := debtOf(w, s.Sp)
	repaid := debt0.Sub(debt1)
	paid := sdk.ZeroInt()
	for _, t := range ts {
		sym.Assert("C07.release-recipient", t.From == modAddr(nodetypes.ModuleName) && t.To == s.Sp)
		paid = paid.Add(sdk.NewIntFromBigInt(t.Amt))
	}
	sym.Assert("C07.release-amount", paid.Add(repaid).Equal(s.Pledge.Amount) && !repaid.IsNegative() && repaid.LTE(debt0))
	sym.Assert("C14.release-shardpledged", p1.TotalShardPledged.Amount.Equal(p0.TotalShardPledged.Amount.Sub(s.Pledge.Amount)))
	sym.Assert("C14.release-used", p1.UsedStorage == p0.UsedStorage-int64(s.Size_) && p1.TotalStorage == p0.TotalStorage)
	sym.Assert("C07.release-storagepledge-untouched", p1.TotalStoragePledged.Amount.Equal(p0.TotalStoragePledged.Amount))
	if p0.TotalStorage > 0 {
		sym.Assert("C08.release-settles-reward", pendingReward(p1, pool).Equal(pendingReward(p0, pool)))
	}
	for _, k := range w.WrittenString(snap, "node", nodetypes.PledgeKeyPrefix, "/") {
		sym.Assert("C07.release-frame-pledge", k == s.Sp)
	}
	for _, k := range w.WrittenString(snap, "node", nodetypes.PledgeDebtKeyPrefix, "/") {
		sym.Assert("C07.release-frame-debt", k == s.Sp)
	}
}

// C07/C14 ShardPledge: takes from the provider exactly what it writes into shard.Pledge (or records the
// shortfall as debt for renewed shards), raises the counters by exactly this shard, needs free capacity.
func Ob_C02C07C08C14_ShardPledge() {
	w := NewWorld()
	var s ordertypes.Shard
	var price sdk.DecCoin
	sym.Fill("shard", &s)
	sym.Fill("unitPrice", &price)
	sym.Assume(InvShard(s) && nonNegDecCoin(price) && price.Denom == WorldDenom)
	p0, had := w.Node.GetPledge(w.Ctx, s.Sp)
	pool, _ := w.Node.GetPool(w.Ctx)
	debt0 := debtOf(w, s.Sp)
	snap, nT := w.Snapshot(), w.TransferCount()
	var err error
	panicked, _ := sym.Catch(func() { err = w.Node.ShardPledge(w.Ctx, &s, price) })
	if panicked || err != nil {
		return
	}
	sym.Cover("C07.shardpledge")
	sym.Assert("C07.pledge-needs-pledge-record", had)
	p1, _ := w.Node.GetPledge(w.Ctx, s.Sp)
	debt1 := debtOf(w, s.Sp)
	taken := sdk.ZeroInt()
	for _, t := range w.TransfersSince(nT) {
		sym.Assert("C07.pledge-direction", t.From == s.Sp && t.To == modAddr(nodetypes.ModuleName))
		taken = taken.Add(sdk.NewIntFromBigInt(t.Amt))
	}
	sym.Assert("C07.pledge-taken-plus-debt", taken.Add(debt1.Sub(debt0)).Equal(s.Pledge.Amount) && debt1.GTE(debt0))
	sym.Assert("C07.pledge-capacity", p0.TotalStorage-p0.UsedStorage >= int64(s.Size_))
	sym.Assert("C14.pledge-used", p1.UsedStorage == p0.UsedStorage+int64(s.Size_) && p1.TotalStorage == p0.TotalStorage && p1.UsedStorage <= p1.TotalStorage)
	sym.Assert("C14.pledge-shardpledged", p1.TotalShardPledged.Amount.Equal(p0.TotalShardPledged.Amount.Add(s.Pledge.Amount)))
	if p0.TotalStorage > 0 {
		sym.Assert("C08.pledge-settles-reward", pendingReward(p1, pool).Equal(pendingReward(p0, pool)))
	}
	stored, f := w.Order.GetShard(w.Ctx, s.Id)
	sym.Assert("C07.pledge-recorded-on-shard", f && stored.Pledge.Amount.Equal(s.Pledge.Amount))
	for _, k := range w.WrittenString(snap, "node", nodetypes.PledgeKeyPrefix, "/") {
		sym.Assert("C07.pledge-frame", k == s.Sp)
	}
}
