//go:build verif

package zzverif

import (
	didtypes "github.com/SaoNetwork/sao/x/did/types"
	markettypes "github.com/SaoNetwork/sao/x/market/types"
	modeltypes "github.com/SaoNetwork/sao/x/model/types"
	nodetypes "github.com/SaoNetwork/sao/x/node/types"
	orderkeeper "github.com/SaoNetwork/sao/x/order/keeper"
	ordertypes "github.com/SaoNetwork/sao/x/order/types"
	saotypes "github.com/SaoNetwork/sao/x/sao/types"
	"github.com/SaoNetwork/sao/zzverif/sym"
)

const ChainID = "sao-verif"

// declareSchemas states, per store prefix, the record type and the key it is stored under
// ("key = keyOf(record)" is the representation invariant every Set* call site maintains; it is what
// the genesis validators call "index"). Raw prefixes hold counters / cursors / id strings.
func declareSchemas() { declareSchemasFor("") }

// declareSchemasFor declares the schemas for the store family with the given name suffix ("" = the chain,
// "2" = the empty twin that a genesis import writes into).
func declareSchemasFor(sfx string) {
	sym.DeclareKeyed("order"+sfx, ordertypes.OrderKey, &ordertypes.Order{}, func(o ordertypes.Order) []byte { return orderkeeper.GetOrderIDBytes(o.Id) })
	sym.DeclareKeyed("order"+sfx, ordertypes.ShardKey, &ordertypes.Shard{}, func(s ordertypes.Shard) []byte { return orderkeeper.GetShardIDBytes(s.Id) })
	sym.DeclareRaw("order"+sfx, ordertypes.OrderCountKey, 8)
	sym.DeclareRaw("order"+sfx, ordertypes.ShardCountKey, 8)

	sym.DeclareKeyed("node"+sfx, nodetypes.NodeKeyPrefix, &nodetypes.Node{}, func(n nodetypes.Node) []byte { return nodetypes.NodeKey(n.Creator) })
	sym.DeclareKeyed("node"+sfx, nodetypes.PledgeKeyPrefix, &nodetypes.Pledge{}, func(p nodetypes.Pledge) []byte { return nodetypes.PledgeKey(p.Creator) })
	sym.DeclareKeyed("node"+sfx, nodetypes.PledgeDebtKeyPrefix, &nodetypes.PledgeDebt{}, func(p nodetypes.PledgeDebt) []byte { return nodetypes.PledgeDebtKey(p.Sp) })
	sym.DeclareKeyed("node"+sfx, nodetypes.FaultIdKeyPrefix, &nodetypes.Fault{}, func(f nodetypes.Fault) []byte { return []byte(f.FaultId) })
	sym.DeclareRawString("node"+sfx, nodetypes.FaultKeyPrefix)
	sym.DeclareRaw("node"+sfx, nodetypes.NodeRoundKeyPrefix, 1)
	sym.DeclareRawString("node"+sfx, nodetypes.FishingRewardKey)

	sym.DeclareKeyed("model"+sfx, modeltypes.MetadataKeyPrefix, &modeltypes.Metadata{}, func(m modeltypes.Metadata) []byte { return modeltypes.MetadataKey(m.DataId) })
	sym.DeclareKeyed("model"+sfx, modeltypes.ModelKeyPrefix, &modeltypes.Model{}, func(m modeltypes.Model) []byte { return modeltypes.ModelKey(m.Key) })
	sym.DeclareKeyed("model"+sfx, modeltypes.ExpiredDataKeyPrefix, &modeltypes.ExpiredData{}, func(e modeltypes.ExpiredData) []byte { return modeltypes.ExpiredDataKey(e.Height) })

	sym.DeclareKeyed("market"+sfx, markettypes.WorkerKeyPrefix, &markettypes.Worker{}, func(w markettypes.Worker) []byte { return markettypes.WorkerKey(w.Workername) })

	sym.DeclareKeyed("sao"+sfx, saotypes.TimeoutOrderKeyPrefix, &saotypes.TimeoutOrder{}, func(t saotypes.TimeoutOrder) []byte { return saotypes.TimeoutOrderKey(t.Height) })
	sym.DeclareKeyed("sao"+sfx, saotypes.ExpiredShardKeyPrefix, &saotypes.ExpiredShard{}, func(t saotypes.ExpiredShard) []byte { return saotypes.ExpiredShardKey(t.Height) })

	sym.DeclareKeyed("did"+sfx, didtypes.PaymentAddressKeyPrefix, &didtypes.PaymentAddress{}, func(p didtypes.PaymentAddress) []byte { return didtypes.PaymentAddressKey(p.Did) })
	sym.DeclareKeyed("did"+sfx, didtypes.DidKeyPrefix, &didtypes.Did{}, func(d didtypes.Did) []byte { return didtypes.DidKey(d.AccountId) })
	sym.DeclareKeyed("did"+sfx, didtypes.DidBalancesKeyPrefix, &didtypes.DidBalances{}, func(d didtypes.DidBalances) []byte { return didtypes.DidBalancesKey(d.Did) })
	sym.DeclareKeyed("did"+sfx, didtypes.AccountListKeyPrefix, &didtypes.AccountList{}, func(d didtypes.AccountList) []byte { return didtypes.AccountListKey(d.Did) })
	sym.DeclareKeyed("did"+sfx, didtypes.AccountIdKeyPrefix, &didtypes.AccountId{}, func(d didtypes.AccountId) []byte { return didtypes.AccountIdKey(d.AccountDid) })
	sym.DeclareKeyed("did"+sfx, didtypes.AccountAuthKeyPrefix, &didtypes.AccountAuth{}, func(d didtypes.AccountAuth) []byte { return didtypes.AccountAuthKey(d.AccountDid) })
	sym.DeclareKeyed("did"+sfx, didtypes.KidKeyPrefix, &didtypes.Kid{}, func(d didtypes.Kid) []byte { return didtypes.KidKey(d.Address) })
	sym.DeclareKeyed("did"+sfx, didtypes.SidDocumentKeyPrefix, &didtypes.SidDocument{}, func(d didtypes.SidDocument) []byte { return didtypes.SidDocumentKey(d.VersionId) })
	sym.DeclareKeyed("did"+sfx, didtypes.SidDocumentVersionKeyPrefix, &didtypes.SidDocumentVersion{}, func(d didtypes.SidDocumentVersion) []byte { return didtypes.SidDocumentVersionKey(d.DocId) })
	sym.DeclareKeyed("did"+sfx, didtypes.PastSeedsKeyPrefix, &didtypes.PastSeeds{}, func(d didtypes.PastSeeds) []byte { return didtypes.PastSeedsKey(d.Did) })
}
