//go:build verif && !gosym

package zzverif

import (
	"encoding/base64"
	"encoding/hex"
	"fmt"
	"math/big"
	"strings"

	saodidutil "github.com/SaoNetwork/sao-did/util"
	"github.com/SaoNetwork/sao/app"
	didkeeper "github.com/SaoNetwork/sao/x/did/keeper"
	didtypes "github.com/SaoNetwork/sao/x/did/types"
	marketkeeper "github.com/SaoNetwork/sao/x/market/keeper"
	markettypes "github.com/SaoNetwork/sao/x/market/types"
	modelkeeper "github.com/SaoNetwork/sao/x/model/keeper"
	modeltypes "github.com/SaoNetwork/sao/x/model/types"
	nodekeeper "github.com/SaoNetwork/sao/x/node/keeper"
	nodetypes "github.com/SaoNetwork/sao/x/node/types"
	orderkeeper "github.com/SaoNetwork/sao/x/order/keeper"
	ordertypes "github.com/SaoNetwork/sao/x/order/types"
	saokeeper "github.com/SaoNetwork/sao/x/sao/keeper"
	saotypes "github.com/SaoNetwork/sao/x/sao/types"
	"github.com/SaoNetwork/sao/zzverif/sym"
	"github.com/cosmos/cosmos-sdk/codec"
	"github.com/cosmos/cosmos-sdk/crypto/keys/secp256k1"
	"github.com/cosmos/cosmos-sdk/simapp"
	sdk "github.com/cosmos/cosmos-sdk/types"
	authtypes "github.com/cosmos/cosmos-sdk/x/auth/types"
	banktypes "github.com/cosmos/cosmos-sdk/x/bank/types"
	minttypes "github.com/cosmos/cosmos-sdk/x/mint/types"
	stakingtypes "github.com/cosmos/cosmos-sdk/x/staking/types"
	"github.com/ignite/cli/ignite/pkg/cosmoscmd"
	"github.com/tendermint/tendermint/libs/log"
	tmproto "github.com/tendermint/tendermint/proto/tendermint/types"
	dbm "github.com/tendermint/tm-db"
)

const WorldDenom = "sao"

type Transfer struct {
	From, To string
	Denom    string
	Amt      *big.Int
}

type World struct {
	Ctx sdk.Context
	App *app.App

	Did    didkeeper.Keeper
	Order  orderkeeper.Keeper
	Market marketkeeper.Keeper
	Node   nodekeeper.Keeper
	Model  modelkeeper.Keeper
	Sao    saokeeper.Keeper

	SaoMsg  saotypes.MsgServer
	NodeMsg nodetypes.MsgServer
	DidMsg  didtypes.MsgServer

	HookNode nodekeeper.Keeper
	Staking  *NativeStaking

	snaps []sdk.Context
	db    dbm.DB
}

// NativeStaking writes the declared staking facts of a case into the real staking keeper.
type NativeStaking struct {
	w       *World
	ValDels map[string][]string
}

func (s *NativeStaking) DeclareDelegation(del, val string) {
	if sym.Bool("staking.del.present") {
		shares := sym.DecNonNeg("staking.del.shares")
		s.w.App.StakingKeeper.SetDelegation(s.w.Ctx, stakingtypes.Delegation{DelegatorAddress: del, ValidatorAddress: val, Shares: shares})
	}
}

func (s *NativeStaking) DeclareValidator(val string) {
	if sym.Bool("staking.val.present") {
		shares := sym.DecNonNeg("staking.val.shares")
		tokens := sdk.NewIntFromBigInt(sym.NonNegBig("staking.val.tokens"))
		s.w.App.StakingKeeper.SetValidator(s.w.Ctx, stakingtypes.Validator{OperatorAddress: val, DelegatorShares: shares, Tokens: tokens})
	}
}

func (s *NativeStaking) GetValidator(ctx sdk.Context, v sdk.ValAddress) (stakingtypes.Validator, bool) {
	return s.w.App.StakingKeeper.GetValidator(ctx, v)
}

func (s *NativeStaking) Delegation(ctx sdk.Context, d sdk.AccAddress, v sdk.ValAddress) stakingtypes.DelegationI {
	return s.w.App.StakingKeeper.Delegation(ctx, d, v)
}

func (w *World) Height() int64 { return w.Ctx.BlockHeight() }

var configured bool

func modAddr(name string) string { return authtypes.NewModuleAddress(name).String() }

// factories for the record types that can appear in injected pre-states
var recordTypes = map[string]func() codec.ProtoMarshaler{
	"github.com/SaoNetwork/sao/x/order/types.Order":            func() codec.ProtoMarshaler { return &ordertypes.Order{} },
	"github.com/SaoNetwork/sao/x/order/types.Shard":            func() codec.ProtoMarshaler { return &ordertypes.Shard{} },
	"github.com/SaoNetwork/sao/x/node/types.Node":              func() codec.ProtoMarshaler { return &nodetypes.Node{} },
	"github.com/SaoNetwork/sao/x/node/types.Pledge":            func() codec.ProtoMarshaler { return &nodetypes.Pledge{} },
	"github.com/SaoNetwork/sao/x/node/types.PledgeDebt":        func() codec.ProtoMarshaler { return &nodetypes.PledgeDebt{} },
	"github.com/SaoNetwork/sao/x/node/types.Pool":              func() codec.ProtoMarshaler { return &nodetypes.Pool{} },
	"github.com/SaoNetwork/sao/x/node/types.Fault":             func() codec.ProtoMarshaler { return &nodetypes.Fault{} },
	"github.com/SaoNetwork/sao/x/model/types.Metadata":         func() codec.ProtoMarshaler { return &modeltypes.Metadata{} },
	"github.com/SaoNetwork/sao/x/model/types.Model":            func() codec.ProtoMarshaler { return &modeltypes.Model{} },
	"github.com/SaoNetwork/sao/x/model/types.ExpiredData":      func() codec.ProtoMarshaler { return &modeltypes.ExpiredData{} },
	"github.com/SaoNetwork/sao/x/market/types.Worker":          func() codec.ProtoMarshaler { return &markettypes.Worker{} },
	"github.com/SaoNetwork/sao/x/sao/types.TimeoutOrder":       func() codec.ProtoMarshaler { return &saotypes.TimeoutOrder{} },
	"github.com/SaoNetwork/sao/x/sao/types.ExpiredShard":       func() codec.ProtoMarshaler { return &saotypes.ExpiredShard{} },
	"github.com/SaoNetwork/sao/x/did/types.PaymentAddress":     func() codec.ProtoMarshaler { return &didtypes.PaymentAddress{} },
	"github.com/SaoNetwork/sao/x/did/types.Did":                func() codec.ProtoMarshaler { return &didtypes.Did{} },
	"github.com/SaoNetwork/sao/x/did/types.DidBalances":        func() codec.ProtoMarshaler { return &didtypes.DidBalances{} },
	"github.com/SaoNetwork/sao/x/did/types.AccountList":        func() codec.ProtoMarshaler { return &didtypes.AccountList{} },
	"github.com/SaoNetwork/sao/x/did/types.AccountId":          func() codec.ProtoMarshaler { return &didtypes.AccountId{} },
	"github.com/SaoNetwork/sao/x/did/types.AccountAuth":        func() codec.ProtoMarshaler { return &didtypes.AccountAuth{} },
	"github.com/SaoNetwork/sao/x/did/types.Kid":                func() codec.ProtoMarshaler { return &didtypes.Kid{} },
	"github.com/SaoNetwork/sao/x/did/types.SidDocument":        func() codec.ProtoMarshaler { return &didtypes.SidDocument{} },
	"github.com/SaoNetwork/sao/x/did/types.SidDocumentVersion": func() codec.ProtoMarshaler { return &didtypes.SidDocumentVersion{} },
	"github.com/SaoNetwork/sao/x/did/types.PastSeeds":          func() codec.ProtoMarshaler { return &didtypes.PastSeeds{} },
}

// NewWorld builds a real app over MemDB, injects the case's pre-state through the real stores and codec,
// funds the accounts through the real bank keeper and returns the real keepers / message servers.
func NewWorld() *World { return newNativeWorld(true) }

// NewEmptyTwin: a freshly initialised second chain (no pre-state injected) with the same header.
func NewEmptyTwin(w *World) *World {
	t := newNativeWorld(false)
	t.Ctx = t.Ctx.WithBlockHeader(w.Ctx.BlockHeader())
	return t
}

var twinHeader struct {
	h       int64
	apphash []byte
	bt      int64
}

func newNativeWorld(inject bool) *World {
	if !configured {
		cfg := sdk.GetConfig()
		cfg.SetBech32PrefixForAccount(app.AccountAddressPrefix, app.AccountAddressPrefix+"pub")
		cfg.SetBech32PrefixForValidator(app.AccountAddressPrefix+"valoper", app.AccountAddressPrefix+"valoperpub")
		cfg.SetBech32PrefixForConsensusNode(app.AccountAddressPrefix+"valcons", app.AccountAddressPrefix+"valconspub")
		configured = true
	}
	// signature library oracles (the library files are overlay copies during replay builds)
	var lastDid string
	saodidutil.ReplayParseOK = func(did string) bool { return true }
	saodidutil.ReplaySigOK = func(did string) bool {
		ok := sym.NextSigOK(did)
		if ok {
			lastDid = did
		}
		return ok
	}
	saodidutil.ReplayKid = func() (string, error) { return lastDid + "#replay", nil }
	enc := cosmoscmd.MakeEncodingConfig(app.ModuleBasics)
	db := dbm.NewMemDB()
	a := app.New(log.NewNopLogger(), db, nil, true, map[int64]bool{}, "", 0, enc, simapp.EmptyAppOptions{}).(*app.App)

	if inject {
		twinHeader.h = sym.Int64("height")
		twinHeader.apphash = []byte(sym.String("apphash"))
		twinHeader.bt = sym.Int64("blocktime")
	}
	hdr := tmproto.Header{Height: twinHeader.h, Time: sym.Time(twinHeader.bt), AppHash: twinHeader.apphash, ChainID: ChainID}
	ctx := a.BaseApp.NewUncachedContext(false, hdr).WithEventManager(sdk.NewEventManager())

	w := &World{App: a, db: db}
	// parameters of the SDK modules the storage modules call into
	a.AccountKeeper.SetParams(ctx, authtypes.DefaultParams())
	a.BankKeeper.SetParams(ctx, banktypes.DefaultParams())
	sp := stakingtypes.DefaultParams()
	sp.BondDenom = WorldDenom
	a.StakingKeeper.SetParams(ctx, sp)
	// default parameters for the six modules, overridden by the case
	a.NodeKeeper.SetParams(ctx, nodetypes.DefaultParams())
	a.SaoKeeper.SetParams(ctx, saotypes.DefaultParams())
	a.OrderKeeper.SetParams(ctx, ordertypes.DefaultParams())
	a.ModelKeeper.SetParams(ctx, modeltypes.DefaultParams())
	a.MarketKeeper.SetParams(ctx, markettypes.DefaultParams())
	a.DidKeeper.SetParams(ctx, didtypes.DefaultParams())

	c := sym.Current
	if c != nil && inject {
		if p, ok := c.Params["node"]; ok {
			func() {
				// a parameter set the real validators reject is not a reachable configuration: keep the defaults
				defer func() { recover() }()
				var np nodetypes.Params
				a.AppCodec().MustUnmarshalJSON(p, &np)
				// fields the model left unconstrained may not parse natively: keep the model's values where
				// the real validators accept them and the defaults elsewhere
				def := nodetypes.DefaultParams()
				if _, err := sdk.NewDecFromStr(np.AnnualPercentageYield); err != nil {
					np.AnnualPercentageYield = def.AnnualPercentageYield
				}
				if t, err := sdk.NewDecFromStr(np.ShareThreshold); err != nil || t.LT(sdk.NewDecWithPrec(1, 2)) {
					np.ShareThreshold = def.ShareThreshold
				}
				if np.HalvingPeriod <= 10 {
					np.HalvingPeriod = def.HalvingPeriod
				}
				if np.AdjustmentPeriod <= 10 {
					np.AdjustmentPeriod = def.AdjustmentPeriod
				}
				if np.PenaltyBase == 0 {
					np.PenaltyBase = def.PenaltyBase
				}
				if np.MaxPenalty <= 10 {
					np.MaxPenalty = def.MaxPenalty
				}
				if np.VstorageThreshold <= 0 {
					np.VstorageThreshold = def.VstorageThreshold
				}
				if np.OfflineTriggerHeight <= 0 {
					np.OfflineTriggerHeight = def.OfflineTriggerHeight
				}
				a.NodeKeeper.SetParams(ctx, np)
			}()
		}
		if p, ok := c.Params["did"]; ok {
			func() {
				defer func() { recover() }()
				var dp didtypes.Params
				a.AppCodec().MustUnmarshalJSON(p, &dp)
				a.DidKeeper.SetParams(ctx, dp)
			}()
		}
		for _, sc := range c.Stores {
			key, err := hex.DecodeString(sc.KeyHex)
			if err != nil {
				panic(err)
			}
			st := ctx.KVStore(a.GetKey(sc.Store))
			if !sc.Present {
				st.Delete(key)
				continue
			}
			if sc.Type != "" {
				f, ok := recordTypes[sc.Type]
				if !ok {
					panic("replay: unknown record type " + sc.Type)
				}
				rec := f()
				if err := a.AppCodec().UnmarshalJSON(sc.JSON, rec); err != nil {
					panic(fmt.Sprintf("replay: %s: %v: %s", sc.Type, err, string(sc.JSON)))
				}
				st.Set(key, a.AppCodec().MustMarshal(rec))
			} else if sc.RawHex != "" || sc.IsRaw {
				raw, _ := hex.DecodeString(sc.RawHex)
				st.Set(key, raw)
			}
		}
		for _, b := range c.Bank {
			amt, ok := sdk.NewIntFromString(b.Amount)
			if !ok || !amt.IsPositive() {
				continue
			}
			coins := sdk.NewCoins(sdk.NewCoin(b.Denom, amt))
			if err := a.BankKeeper.MintCoins(ctx, minttypes.ModuleName, coins); err != nil {
				panic(err)
			}
			if strings.HasPrefix(b.Addr, "mod:") {
				name := strings.TrimPrefix(b.Addr, "mod:")
				if _, reg := app.GetMaccPerms()[name]; !reg {
					continue
				}
				if err := a.BankKeeper.SendCoinsFromModuleToModule(ctx, minttypes.ModuleName, name, coins); err != nil {
					panic(err)
				}
			} else {
				addr, err := sdk.AccAddressFromBech32(b.Addr)
				if err != nil {
					continue
				}
				if err := a.BankKeeper.SendCoinsFromModuleToAccount(ctx, minttypes.ModuleName, addr, coins); err != nil {
					panic(err)
				}
			}
		}
	}
	// fresh event manager: only the harness' own calls are observed
	w.Ctx = ctx.WithEventManager(sdk.NewEventManager())
	w.Did, w.Order, w.Market, w.Node, w.Model, w.Sao = a.DidKeeper, a.OrderKeeper, a.MarketKeeper, a.NodeKeeper, a.ModelKeeper, a.SaoKeeper
	w.HookNode = a.NodeKeeper
	w.Staking = &NativeStaking{w: w, ValDels: map[string][]string{}}
	w.SaoMsg = saokeeper.NewMsgServerImpl(w.Sao)
	w.NodeMsg = nodekeeper.NewMsgServerImpl(w.Node)
	w.DidMsg = didkeeper.NewMsgServerImpl(w.Did)
	return w
}

func normAddr(s string) string {
	// module accounts are reported as mod:<name> on both sides
	for name := range app.GetMaccPerms() {
		if authtypes.NewModuleAddress(name).String() == s {
			return "mod:" + name
		}
	}
	return s
}

// Transfers parses the bank module's transfer / coinbase events emitted since the World was built.
func (w *World) Transfers() []Transfer {
	var out []Transfer
	for _, ev := range w.Ctx.EventManager().Events() {
		if ev.Type != banktypes.EventTypeTransfer && ev.Type != banktypes.EventTypeCoinMint {
			continue
		}
		var from, to, amount string
		for _, a := range ev.Attributes {
			switch string(a.Key) {
			case banktypes.AttributeKeySender:
				from = string(a.Value)
			case banktypes.AttributeKeyRecipient:
				to = string(a.Value)
			case banktypes.AttributeKeyMinter:
				to = string(a.Value)
			case sdk.AttributeKeyAmount:
				amount = string(a.Value)
			}
		}
		coins, err := sdk.ParseCoinsNormalized(amount)
		if err != nil {
			continue
		}
		for _, c := range coins {
			t := Transfer{From: normAddr(from), To: normAddr(to), Denom: c.Denom, Amt: c.Amount.BigInt()}
			if ev.Type == banktypes.EventTypeCoinMint {
				t.From = ""
			}
			out = append(out, t)
		}
	}
	return out
}

func (w *World) TransferCount() int            { return len(w.Transfers()) }
func (w *World) TransfersSince(n int) []Transfer { return w.Transfers()[n:] }

func (w *World) Bal(addr, denom string) *big.Int {
	var a sdk.AccAddress
	if strings.HasPrefix(addr, "mod:") {
		a = authtypes.NewModuleAddress(strings.TrimPrefix(addr, "mod:"))
	} else {
		var err error
		a, err = sdk.AccAddressFromBech32(addr)
		if err != nil {
			return big.NewInt(0)
		}
	}
	return w.App.BankKeeper.GetBalance(w.Ctx, a, denom).Amount.BigInt()
}

// Snapshot: later writes go to a cache layer, the snapshot context keeps seeing the earlier state.
func (w *World) Snapshot() int {
	w.snaps = append(w.snaps, w.Ctx)
	cc, _ := w.Ctx.CacheContext()
	w.Ctx = cc.WithEventManager(w.Ctx.EventManager())
	return len(w.snaps) - 1
}

// Rewire: commit what the current context holds and open a second app instance over the same database
// (a node restarted from its database).
func (w *World) Rewire() *World {
	w.App.CommitMultiStore().Commit()
	enc := cosmoscmd.MakeEncodingConfig(app.ModuleBasics)
	a := app.New(log.NewNopLogger(), w.db, nil, true, map[int64]bool{}, "", 0, enc, simapp.EmptyAppOptions{}).(*app.App)
	t := &World{App: a, db: w.db}
	t.Ctx = a.BaseApp.NewUncachedContext(false, w.Ctx.BlockHeader()).WithEventManager(sdk.NewEventManager())
	t.Did, t.Order, t.Market, t.Node, t.Model, t.Sao = a.DidKeeper, a.OrderKeeper, a.MarketKeeper, a.NodeKeeper, a.ModelKeeper, a.SaoKeeper
	t.HookNode = a.NodeKeeper
	t.Staking = &NativeStaking{w: t, ValDels: map[string][]string{}}
	t.SaoMsg = saokeeper.NewMsgServerImpl(t.Sao)
	t.NodeMsg = nodekeeper.NewMsgServerImpl(t.Node)
	t.DidMsg = didkeeper.NewMsgServerImpl(t.Did)
	return t
}

// Rollback: continue from the snapshot state in a fresh cache layer (writes since the snapshot are dropped).
func (w *World) Rollback(snap int) {
	cc, _ := w.snaps[snap].CacheContext()
	w.Ctx = cc.WithEventManager(sdk.NewEventManager())
}

func (w *World) At(snap int, f func()) {
	cur := w.Ctx
	w.Ctx = w.snaps[snap]
	defer func() { w.Ctx = cur }()
	f()
}

func (w *World) diffKeys(snap int, store, prefix string) [][]byte {
	seen := map[string]bool{}
	var out [][]byte
	collect := func(a, b sdk.Context) {
		var it sdk.Iterator
		if prefix == "" {
			it = a.KVStore(w.App.GetKey(store)).Iterator(nil, nil)
		} else {
			it = sdk.KVStorePrefixIterator(a.KVStore(w.App.GetKey(store)), []byte(prefix))
		}
		defer it.Close()
		for ; it.Valid(); it.Next() {
			k := it.Key()
			other := b.KVStore(w.App.GetKey(store)).Get(k)
			if other == nil || string(other) != string(it.Value()) {
				if !seen[string(k)] {
					seen[string(k)] = true
					out = append(out, append([]byte{}, k...))
				}
			}
		}
	}
	collect(w.Ctx, w.snaps[snap])
	collect(w.snaps[snap], w.Ctx)
	return out
}

// WrittenUint64: ids under an 8-byte-keyed prefix whose value differs from the snapshot
// (the native counterpart of the write set; an overwrite with an identical value is not reported).
func (w *World) WrittenUint64(snap int, store, prefix string) []uint64 {
	var out []uint64
	for _, k := range w.diffKeys(snap, store, prefix) {
		r := k[len(prefix):]
		if len(r) >= 8 {
			v := uint64(0)
			for i := 0; i < 8; i++ {
				v = v<<8 | uint64(r[i])
			}
			out = append(out, v)
		}
	}
	return out
}

func (w *World) WrittenString(snap int, store, prefix, suffix string) []string {
	var out []string
	for _, k := range w.diffKeys(snap, store, prefix) {
		out = append(out, strings.TrimSuffix(string(k[len(prefix):]), suffix))
	}
	return out
}

func (w *World) WrittenAny(snap int, store string) bool { return len(w.diffKeys(snap, store, "")) > 0 }

func (w *World) WrittenOutside(snap int, store string, allowed ...string) bool {
	for _, k := range w.diffKeys(snap, store, "") {
		ok := false
		for _, p := range allowed {
			if strings.HasPrefix(string(k), p) {
				ok = true
			}
		}
		if !ok {
			return true
		}
	}
	return false
}

// validProofFor: natively the proof is really signed; the first sixteen generated account addresses belong to
// keys derived from fixed secrets (engine/bech32.go keyTable).
func validProofFor(addr, message string) string {
	rec := sym.String("proofsig")
	for n := 1; n <= 16; n++ {
		pk := secp256k1.GenPrivKeyFromSecret([]byte(fmt.Sprintf("verif-key-%d", n)))
		a, _ := sdk.Bech32ifyAddressBytes("sao", pk.PubKey().Address())
		if a == addr {
			sig, err := pk.Sign(didkeeper.GetSignData(addr, message))
			if err != nil {
				return rec
			}
			return "tendermint/PubKeySecp256k1." + base64.StdEncoding.EncodeToString(pk.PubKey().Bytes()) + "." + base64.StdEncoding.EncodeToString(sig)
		}
	}
	return rec
}

// ModuleRegistered / Blocked: facts of the application wiring, read from the real app.
func (w *World) ModuleRegistered(name string) bool {
	return w.App.AccountKeeper.GetModuleAddress(name) != nil
}
func (w *World) Blocked(addr string) bool {
	a, err := sdk.AccAddressFromBech32(addr)
	if err != nil {
		return false
	}
	return w.App.BankKeeper.BlockedAddr(a)
}
