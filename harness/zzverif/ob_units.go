//go:build verif

package zzverif

import (
	"math/big"

	"github.com/SaoNetwork/sao/zzverif/sym"
	nodekeeper "github.com/SaoNetwork/sao/x/node/keeper"
)

// C02/C15: RandomIndex terminates and returns distinct in-range indices.
func Ob_C02C15_RandomIndex() {
	seed := sym.BigInt("seed")
	total := sym.Int("total")
	count := sym.Int("count")
	sym.Assume(seed.Sign() >= 0 && seed.Cmp(big.NewInt(1000)) < 0)
	sym.Assume(total >= 0 && total <= 4 && count >= 0 && count <= 2)
	total = sym.ConcreteInt(total, 0, 4)
	idx := nodekeeper.Keeper{}.RandomIndex(seed, total, count)
	sym.Cover("C15.randomindex-returns")
	for i := range idx {
		sym.Assert("C15.index-in-range", idx[i] >= 0 && idx[i] < total)
		for j := 0; j < i; j++ {
			sym.Assert("C15.index-distinct", idx[i] != idx[j])
		}
	}
	sym.Assert("C15.index-count", len(idx) <= count)
}
