//go:build verif

package zzverif

import (
	ordertypes "github.com/SaoNetwork/sao/x/order/types"
	saotypes "github.com/SaoNetwork/sao/x/sao/types"
	"github.com/SaoNetwork/sao/zzverif/sym"
)

func inListU64(x uint64, l []uint64) bool {
	r := false
	for _, v := range l {
		r = sym.Or(r, v == x)
	}
	return r
}

func countU64(x uint64, l []uint64) int {
	n := 0
	for _, v := range l {
		if v == x {
			n++
		}
	}
	return n
}

// C11/C13 SetExpiredShardBlock: the shard id is added to exactly the list of the given height, once.
func Ob_C11C13_SetExpiredShardBlock() {
	w := NewWorld()
	id, h := sym.Uint64("shardId"), sym.Uint64("height")
	e0, had := w.Sao.GetExpiredShard(w.Ctx, h)
	sym.Assume(!had || !inListU64(id, e0.ShardList))
	snap := w.Snapshot()
	w.Sao.SetExpiredShardBlock(w.Ctx, id, h)
	sym.Cover("C11.setexpired")
	e1, has := w.Sao.GetExpiredShard(w.Ctx, h)
	sym.Assert("C11.setexpired-listed-once", has && e1.Height == h && countU64(id, e1.ShardList) == 1)
	if had {
		sym.Assert("C11.setexpired-keeps-others", len(e1.ShardList) == len(e0.ShardList)+1)
		for _, x := range e0.ShardList {
			sym.Assert("C11.setexpired-keeps-others", inListU64(x, e1.ShardList))
		}
	} else {
		sym.Assert("C11.setexpired-keeps-others", len(e1.ShardList) == 1)
	}
	for _, k := range w.WrittenUint64(snap, "sao", saotypes.ExpiredShardKeyPrefix) {
		sym.Assert("C11.setexpired-frame", k == h)
	}
}

// C12 SetTimeoutOrderBlock
func Ob_C12_SetTimeoutOrderBlock() {
	w := NewWorld()
	var o ordertypes.Order
	sym.Fill("order", &o)
	h := sym.Uint64("height")
	t0, had := w.Sao.GetTimeoutOrder(w.Ctx, h)
	snap := w.Snapshot()
	w.Sao.SetTimeoutOrderBlock(w.Ctx, o, h)
	sym.Cover("C12.settimeout")
	t1, has := w.Sao.GetTimeoutOrder(w.Ctx, h)
	sym.Assert("C12.settimeout-listed", has && t1.Height == h && inListU64(o.Id, t1.OrderList))
	if had {
		sym.Assert("C12.settimeout-keeps-others", len(t1.OrderList) == len(t0.OrderList)+1)
	}
	for _, k := range w.WrittenUint64(snap, "sao", saotypes.TimeoutOrderKeyPrefix) {
		sym.Assert("C12.settimeout-frame", k == h)
	}
}

// C11/C13/C14 HandleExpiredShard, release branch: a completed shard without renewals is removed, its
// provider's capacity, collateral and income are released exactly once, the order drops the shard (and
// disappears with its last shard).
func Ob_C07C11C13C14_HandleExpiredShard_Release() {
	w := NewWorld()
	sid := sym.Uint64("shardId")
	s, found := w.Order.GetShard(w.Ctx, sid)
	sym.Assume(found && len(s.RenewInfos) == 0 && s.Status == ordertypes.ShardCompleted)
	o, ofound := w.Order.GetOrder(w.Ctx, s.OrderId)
	sym.Assume(ofound && inListU64(sid, o.Shards) && countU64(sid, o.Shards) == 1)
	p0, hadP := w.Node.GetPledge(w.Ctx, s.Sp)
	_, hadPool := w.Node.GetPool(w.Ctx)
	wk0, hadW := w.Market.GetWorker(w.Ctx, workerName(s.Sp))
	// cross-record invariants of a live completed shard (C14): its contribution is inside the counters
	sym.Assume(hadP && hadPool && hadW && p0.TotalShardPledged.Amount.GTE(s.Pledge.Amount) && p0.UsedStorage >= int64(s.Size_) &&
		wk0.Storage >= s.Size_ && wk0.LastRewardAt <= w.Height())
	// escrow solvency (C06): the node escrow holds at least this shard's collateral
	sym.Assume(w.Bal(modAddr("node"), WorldDenom).Cmp(s.Pledge.Amount.BigInt()) >= 0)
	debt0 := debtOf(w, s.Sp)
	nT := w.TransferCount()
	w.Sao.HandleExpiredShard(w.Ctx, sid)
	sym.Cover("C11.expire-release")
	_, still := w.Order.GetShard(w.Ctx, sid)
	sym.Assert("C11.expire-shard-gone", !still)
	p1, _ := w.Node.GetPledge(w.Ctx, s.Sp)
	sym.Assert("C14.expire-used-released", p1.UsedStorage == p0.UsedStorage-int64(s.Size_))
	sym.Assert("C14.expire-shardpledge-released", p1.TotalShardPledged.Amount.Equal(p0.TotalShardPledged.Amount.Sub(s.Pledge.Amount)))
	wk1, _ := w.Market.GetWorker(w.Ctx, workerName(s.Sp))
	sym.Assert("C14.expire-worker-released", wk1.Storage == wk0.Storage-s.Size_ &&
		wk1.IncomePerSecond.Amount.Equal(wk0.IncomePerSecond.Amount.Sub(o.UnitPrice.Amount.MulInt64(int64(s.Size_)))))
	paid := debt0.Sub(debtOf(w, s.Sp))
	for _, t := range w.TransfersSince(nT) {
		sym.Assert("C07.expire-pays-provider-only", t.From == modAddr("node") && t.To == s.Sp)
		paid = paid.Add(newInt(t.Amt))
	}
	sym.Assert("C07.expire-returns-collateral", paid.Equal(s.Pledge.Amount))
	o1, ostill := w.Order.GetOrder(w.Ctx, o.Id)
	if len(o.Shards) == 1 {
		sym.Assert("C13.expire-last-shard-removes-order", !ostill)
	} else {
		sym.Assert("C13.expire-order-drops-shard", ostill && !inListU64(sid, o1.Shards) && len(o1.Shards) == len(o.Shards)-1)
	}
}

// C11 HandleExpiredShard, rotate branch: a shard with a queued renewal rotates to the next period and is
// rescheduled at now + that period; it is not released.
func Ob_C07C11C13C14_HandleExpiredShard_Rotate() {
	w := NewWorld()
	sym.SetBound("Shard.RenewInfos", 2)
	sid := sym.Uint64("shardId")
	s, found := w.Order.GetShard(w.Ctx, sid)
	sym.Assume(found && len(s.RenewInfos) >= 1 && s.Status == ordertypes.ShardCompleted)
	o, ofound := w.Order.GetOrder(w.Ctx, s.OrderId)
	sym.Assume(ofound && inListU64(sid, o.Shards) && countU64(sid, o.Shards) == 1)
	next := s.RenewInfos[0]
	sym.Assume(next.Duration < 1<<40)
	// referential integrity of queued renewals (C13): the renewal order exists
	no, nof := w.Order.GetOrder(w.Ctx, next.OrderId)
	_, hadW := w.Market.GetWorker(w.Ctx, workerName(s.Sp))
	sym.Assume(nof && hadW && no.Id == next.OrderId)
	p0, hadP := w.Node.GetPledge(w.Ctx, s.Sp)
	nT := w.TransferCount()
	w.Sao.HandleExpiredShard(w.Ctx, sid)
	sym.Cover("C11.expire-rotate")
	s1, still := w.Order.GetShard(w.Ctx, sid)
	sym.Assert("C11.rotate-shard-kept", still && s1.Status == ordertypes.ShardCompleted && s1.OrderId == next.OrderId &&
		s1.CreatedAt == uint64(w.Height()) && s1.Duration == next.Duration && len(s1.RenewInfos) == len(s.RenewInfos)-1)
	// the remaining queue is the old queue without its head (the periods still to come are untouched)
	for i := 0; i+1 < len(s.RenewInfos) && i < len(s1.RenewInfos); i++ {
		sym.Assert("C11.rotate-keeps-later-renewals", sym.DeepEq(&s1.RenewInfos[i], &s.RenewInfos[i+1]))
	}
	e, has := w.Sao.GetExpiredShard(w.Ctx, uint64(w.Height())+next.Duration)
	sym.Assert("C11.rotate-rescheduled", has && inListU64(sid, e.ShardList))
	sym.Assert("C07.rotate-no-collateral-move", w.TransferCount() == nT)
	// the collateral recorded on the shard is what sits in escrow for it: a rotation, which moves nothing, keeps it
	sym.Assert("C07.rotate-keeps-shard-pledge", s1.Pledge.Amount.Equal(s.Pledge.Amount) && s1.Pledge.Denom == s.Pledge.Denom)
	if hadP {
		p1, _ := w.Node.GetPledge(w.Ctx, s.Sp)
		sym.Assert("C14.rotate-keeps-capacity", p1.UsedStorage == p0.UsedStorage && p1.TotalShardPledged.Amount.Equal(p0.TotalShardPledged.Amount))
	}
}
