//go:build verif

package zzverif

import (
	"strings"

	nodetypes "github.com/SaoNetwork/sao/x/node/types"
	ordertypes "github.com/SaoNetwork/sao/x/order/types"
	saotypes "github.com/SaoNetwork/sao/x/sao/types"
	"github.com/SaoNetwork/sao/zzverif/sym"
	sdk "github.com/cosmos/cosmos-sdk/types"
)

// C19 MsgRecoverFaults: only fishmen clear reports about others, a provider only declares recovery for
// itself; no coin moves, no order/shard/model/worker record changes; any penalty only lowers the accused
// provider's own reward / collateral, never below zero, and touches nobody else's pledge.
func Ob_C19_RecoverFaults() {
	w := NewWorld()
	sym.SetBound("Order.Shards", 1)
	var msg saotypes.MsgRecoverFaults
	sym.Fill("msg", &msg)
	sym.Assume(len(msg.Faults) == 1 && msg.Faults[0] != nil)
	in := msg.Faults[0]
	_, ec := sdk.AccAddressFromBech32(msg.Creator)
	sym.Assume(ec == nil) // a transaction signer is an account address
	reporter, isNode := w.Node.GetNode(w.Ctx, msg.Creator)
	fishmen := w.Node.FishmenInfo(w.Ctx)
	// the recorded fault the entry points at; its confirmation trail is one of a few concrete shapes (the
	// handler counts and splits it - symbolic trails are the thorough tier's subject)
	rec, hasRec := w.Node.GetFaultBySpAndShardId(w.Ctx, in.Provider, in.ShardId)
	sym.Assume(hasRec && rec != nil && rec.Provider == in.Provider && rec.ShardId == in.ShardId && rec.FaultId != "" && rec.Penalty < 1<<20)
	trails := []string{"+sao1fishmanaaaaaaaaaaaaaaaaaaaaaaaaaaaaaaaa", "+sao1fishmanaaaaaaaaaaaaaaaaaaaaaaaaaaaaaaaa|+sao1fishmanbbbbbbbbbbbbbbbbbbbbbbbbbbbbbbbb",
		"+sao1fishmanaaaaaaaaaaaaaaaaaaaaaaaaaaaaaaaa|+sao1fishmanbbbbbbbbbbbbbbbbbbbbbbbbbbbbbbbb|-sao1fishmanaaaaaaaaaaaaaaaaaaaaaaaaaaaaaaaa"}
	k := sym.Int("trail")
	nTrails := 2
	if sym.Tier() != "quick" {
		nTrails = 3
	}
	sym.Assume(k >= 0 && k < nTrails)
	k = sym.ConcreteInt(k, 0, 2)
	rec.Confirms = trails[k]
	pen := sym.Int("penaltyPeriods") // periods the fault stayed confirmed: 0..2 (the penalty is linear in it)
	sym.Assume(pen >= 0 && pen <= 2)
	rec.Penalty = uint64(sym.ConcreteInt(pen, 0, 2))
	w.Node.SetFault(w.Ctx, rec)
	p0, hadP := w.Node.GetPledge(w.Ctx, in.Provider)
	snap, nT := w.Snapshot(), w.TransferCount()
	var err error
	panicked, _ := sym.Catch(func() { _, err = w.SaoMsg.RecoverFaults(sdk.WrapSDKContext(w.Ctx), &msg) })
	if panicked || err != nil {
		return
	}
	sym.Cover("C19.recover-returns")
	sym.Assert("C19.recover-no-transfer", w.TransferCount() == nT)
	sym.Assert("C19.recover-frame", !w.WrittenAny(snap, "order") && !w.WrittenAny(snap, "model") && !w.WrittenAny(snap, "market") &&
		!w.WrittenAny(snap, "did") && !w.WrittenAny(snap, "sao") &&
		!w.WrittenOutside(snap, "node", nodetypes.FaultIdKeyPrefix, nodetypes.FaultKeyPrefix, nodetypes.FishingRewardKey, nodetypes.PledgeKeyPrefix))
	if w.WrittenAny(snap, "node") {
		sym.Cover("C19.recover-recorded")
		isFishman := isNode && strings.Contains(fishmen, reporter.Creator)
		self := msg.Creator == msg.Provider
		sym.Assert("C19.recover-reporter", isNode && (self || isFishman))
		// whoever is not a fishman touches only a fault recorded against itself
		sym.Assert("C19.recover-own-fault-only", isFishman || rec.Provider == msg.Creator)
		sym.Assert("C19.recover-names-accused", rec.Provider == msg.Provider)
	}
	for _, k := range w.WrittenString(snap, "node", nodetypes.PledgeKeyPrefix, "/") {
		sym.Assert("C19.penalty-only-accused-pledge", k == in.Provider)
	}
	if hadP {
		p1, has := w.Node.GetPledge(w.Ctx, in.Provider)
		sym.Assert("C19.penalty-capped", has && !p1.Reward.Amount.IsNegative() && !p1.RewardDebt.Amount.IsNegative() && !p1.TotalStoragePledged.Amount.IsNegative() &&
			p1.Reward.Amount.LTE(p0.Reward.Amount) && p1.TotalStoragePledged.Amount.LTE(p0.TotalStoragePledged.Amount) &&
			p1.TotalStorage == p0.TotalStorage && p1.UsedStorage == p0.UsedStorage && p1.TotalShardPledged.Amount.Equal(p0.TotalShardPledged.Amount))
	}
}

func superPredicate(w *World, n nodetypes.Node, params nodetypes.Params) bool {
	if n.Status&nodetypes.NODE_STATUS_SUPER_REQUIREMENT != nodetypes.NODE_STATUS_SUPER_REQUIREMENT || n.Validator == "" {
		return false
	}
	p, f := w.Node.GetPledge(w.Ctx, n.Creator)
	if !f || p.TotalStorage < params.VstorageThreshold {
		return false
	}
	da, e1 := sdk.AccAddressFromBech32(n.Creator)
	va, e2 := sdk.ValAddressFromBech32(n.Validator)
	if e1 != nil || e2 != nil {
		return false
	}
	d := w.Staking.Delegation(w.Ctx, da, va)
	v, hv := w.Staking.GetValidator(w.Ctx, va)
	if d == nil || !hv || v.DelegatorShares.IsZero() {
		return false
	}
	thr, _ := sdk.NewDecFromStr(params.ShareThreshold)
	return d.GetShares().Quo(v.DelegatorShares).GTE(thr)
}

// C20 MsgReset: after a node resets its registration it holds the super role only if it qualifies at that
// moment; a reset that drops a required service flag removes the role.
func Ob_C20_Reset_Role() {
	w := NewWorld()
	params := concreteNodeParams(w, 1000000, 1000000000000)
	var msg nodetypes.MsgReset
	sym.Fill("msg", &msg)
	sym.Assume(msg.Peer == "" && len(msg.TxAddresses) == 0 && msg.Description == nil)
	n0, f := w.Node.GetNode(w.Ctx, msg.Creator)
	sym.Assume(f && n0.Role <= 1)
	val := n0.Validator
	if msg.Validator != "" {
		val = msg.Validator
	}
	if val != "" {
		w.Staking.DeclareDelegation(msg.Creator, val)
		w.Staking.DeclareValidator(val)
	}
	var err error
	panicked, _ := sym.Catch(func() { _, err = w.NodeMsg.Reset(sdk.WrapSDKContext(w.Ctx), &msg) })
	if panicked || err != nil {
		return
	}
	sym.Cover("C20.reset-succeeds")
	n1, _ := w.Node.GetNode(w.Ctx, msg.Creator)
	if n1.Role == nodetypes.NODE_SUPER {
		sym.Cover("C20.reset-super")
		sym.Assert("C20.reset-super-only-if-qualified", superPredicate(w, n1, params))
	}
}

// C20 MsgRemoveVstorage: withdrawing capacity below the threshold removes the role in the same transaction.
func Ob_C20_RemoveVstorage_Demotes() {
	w := NewWorld()
	params := concreteNodeParams(w, 1000000, 1000000000000)
	var msg nodetypes.MsgRemoveVstorage
	sym.Fill("msg", &msg)
	var err error
	panicked, _ := sym.Catch(func() { _, err = w.NodeMsg.RemoveVstorage(sdk.WrapSDKContext(w.Ctx), &msg) })
	if panicked || err != nil {
		return
	}
	sym.Cover("C20.removevstorage-succeeds")
	n1, f := w.Node.GetNode(w.Ctx, msg.Creator)
	p1, pf := w.Node.GetPledge(w.Ctx, msg.Creator)
	if f && pf && p1.TotalStorage < params.VstorageThreshold {
		sym.Assert("C20.below-threshold-not-super", n1.Role == nodetypes.NODE_NORMAL)
	}
}

// C20 MsgAddVstorage: adding capacity promotes only a node that qualifies.
func Ob_C20_AddVstorage_Promotes() {
	w := NewWorld()
	params := concreteNodeParams(w, 1000000, 1000000000000)
	var msg nodetypes.MsgAddVstorage
	sym.Fill("msg", &msg)
	sym.Assume(msg.Size_ < 1<<50)
	n0, f := w.Node.GetNode(w.Ctx, msg.Creator)
	sym.Assume(f && n0.Role == nodetypes.NODE_NORMAL && n0.Validator != "")
	w.Staking.DeclareDelegation(msg.Creator, n0.Validator)
	w.Staking.DeclareValidator(n0.Validator)
	var err error
	panicked, _ := sym.Catch(func() { _, err = w.NodeMsg.AddVstorage(sdk.WrapSDKContext(w.Ctx), &msg) })
	if panicked || err != nil {
		return
	}
	sym.Cover("C20.addvstorage-succeeds")
	n1, _ := w.Node.GetNode(w.Ctx, msg.Creator)
	if n1.Role == nodetypes.NODE_SUPER {
		sym.Cover("C20.addvstorage-promotes")
		sym.Assert("C20.promote-only-if-qualified", superPredicate(w, n1, params))
	}
}

// C08 T-claim: a reward claim pays the signer the whole-coin part of its own settled block reward (less
// debt repaid) out of the node escrow, keeps the fraction, and pays nobody else.
func Ob_C08_ClaimReward_Amount() {
	w := NewWorld()
	var msg nodetypes.MsgClaimReward
	sym.Fill("msg", &msg)
	p0, had := w.Node.GetPledge(w.Ctx, msg.Creator)
	pool, hasPool := w.Node.GetPool(w.Ctx)
	sym.Assume(had && hasPool && p0.TotalStorage > 0)
	debt0 := debtOf(w, msg.Creator)
	_, hasWorker := w.Market.GetWorker(w.Ctx, workerName(msg.Creator))
	sym.Assume(!hasWorker) // storage income is C04's subject; here only the block-reward share
	nT := w.TransferCount()
	var err error
	panicked, _ := sym.Catch(func() { _, err = w.NodeMsg.ClaimReward(sdk.WrapSDKContext(w.Ctx), &msg) })
	if panicked || err != nil {
		return
	}
	sym.Cover("C08.claim-succeeds")
	owed := pendingReward(p0, pool)
	paid := sdk.ZeroInt()
	for _, t := range w.TransfersSince(nT) {
		sym.Assert("C08.claim-pays-signer-from-node-escrow", t.From == modAddr(nodetypes.ModuleName) && t.To == msg.Creator)
		paid = paid.Add(newInt(t.Amt))
	}
	repaid := debt0.Sub(debtOf(w, msg.Creator))
	sym.Assert("C08.claim-whole-coins-less-debt", paid.Add(repaid).Equal(owed.TruncateInt()) && !repaid.IsNegative())
	p1, _ := w.Node.GetPledge(w.Ctx, msg.Creator)
	sym.Assert("C08.claim-keeps-fraction", pendingReward(p1, pool).Equal(owed.Sub(sdk.NewDecFromInt(owed.TruncateInt()))))
}

// C12/C13/C15 re-assignment: a stalled shard is marked timed out, a new waiting shard for a provider that
// holds no shard of the order is created and listed, and the order is examined again one timeout later.
func Ob_C12C13C15_Timeout_Reassign() {
	w := NewWorld()
	sym.SetBound("Order.Shards", 1)
	if sym.Tier() == "quick" {
		sym.SetEnumBound("node", nodetypes.NodeKeyPrefix, 1)
		sym.SetBound("Node.TxAddresses", 0)
	} else {
		sym.SetEnumBound("node", nodetypes.NodeKeyPrefix, 2)
	}
	id := sym.Uint64("orderId")
	o, found := w.Order.GetOrder(w.Ctx, id)
	sym.Assume(found && o.Status == ordertypes.OrderDataReady && len(o.Shards) == 1 && o.Id == id)
	s0, f := w.Order.GetShard(w.Ctx, o.Shards[0])
	sym.Assume(f && s0.Status == ordertypes.ShardWaiting && s0.Id == o.Shards[0])
	sym.Assume(uint64(w.Height())+o.Timeout < o.CreatedAt+o.Duration && uint64(w.Height()) >= o.CreatedAt)
	sc := w.Order.GetShardCount(w.Ctx)
	sym.Assume(sc < 1<<60 && sc > s0.Id)
	w.Sao.HandleTimeoutOrder(w.Ctx, id)
	sym.Cover("C12.timeout-examined")
	o1, still := w.Order.GetOrder(w.Ctx, id)
	if !still || len(o1.Shards) != 2 {
		return
	}
	sym.Cover("C12.timeout-reassigned")
	old, of := w.Order.GetShard(w.Ctx, s0.Id)
	sym.Assert("C12.reassign-marks-old-shard", of && old.Status == ordertypes.ShardTimeout && o1.Shards[0] == s0.Id)
	ns, nf := w.Order.GetShard(w.Ctx, o1.Shards[1])
	sym.Assert("C13.reassign-new-shard-exists-and-names-order", nf && ns.OrderId == id && ns.Status == ordertypes.ShardWaiting && ns.Id == o1.Shards[1] && ns.Id == sc)
	if nf {
		sym.Assert("C15.reassign-new-provider-differs", ns.Sp != s0.Sp)
		n, isNode := w.Node.GetNode(w.Ctx, ns.Sp)
		p, hasP := w.Node.GetPledge(w.Ctx, ns.Sp)
		sym.Assert("C15.reassign-provider-eligible", isNode && n.Status&spStatus == spStatus && n.Reputation >= 8000.0 && hasP && p.TotalStorage-p.UsedStorage >= int64(o.Size_))
	}
	t, has := w.Sao.GetTimeoutOrder(w.Ctx, uint64(w.Height())+o.Timeout)
	sym.Assert("C12.reassign-rescheduled", has && inListU64(id, t.OrderList))
}

// C12/C04 replica reduction: a completed order whose missing replica cannot be placed for ten intervals
// drops that replica: the uncompleted shard is removed, Replica shrinks and the price of the missing
// replica is refunded from the market escrow to the owner's payment address.
func Ob_C12C04_Timeout_ReplicaReduction() {
	w := NewWorld()
	sym.SetBound("Order.Shards", 3)
	sym.SetEnumBound("node", nodetypes.NodeKeyPrefix, 0)
	id := sym.Uint64("orderId")
	o, found := w.Order.GetOrder(w.Ctx, id)
	sym.Assume(found && o.Status == ordertypes.OrderCompleted && len(o.Shards) >= 2 && o.Replica == 2 && o.Id == id)
	// shards: one completed replica, one still waiting (possibly the replacement of an earlier, timed-out one)
	a, fa := w.Order.GetShard(w.Ctx, o.Shards[0])
	sym.Assume(fa && a.Status == ordertypes.ShardCompleted)
	last := o.Shards[len(o.Shards)-1]
	b, fb := w.Order.GetShard(w.Ctx, last)
	sym.Assume(fb && b.Status == ordertypes.ShardWaiting && last != o.Shards[0])
	if len(o.Shards) == 3 {
		c, fc := w.Order.GetShard(w.Ctx, o.Shards[1])
		sym.Assume(fc && c.Status == ordertypes.ShardTimeout && o.Shards[1] != o.Shards[0] && o.Shards[1] != last)
	}
	sym.Assume(uint64(w.Height())+o.Timeout < o.CreatedAt+o.Duration && uint64(w.Height()) >= o.CreatedAt && uint64(w.Height())-o.CreatedAt > 10*o.Timeout)
	pa, hasPa := w.Did.GetPaymentAddress(w.Ctx, o.Owner)
	sym.Assume(hasPa && o.PaymentDid == "")
	// the charge was price*size*replica*duration rounded up
	full := o.UnitPrice.Amount.MulInt64(int64(o.Size_)).MulInt64(2).MulInt64(int64(o.Duration))
	sym.Assume(sdk.NewDecFromInt(o.Amount.Amount).GTE(full) && sdk.NewDecFromInt(o.Amount.Amount).LT(full.Add(sdk.OneDec())))
	sym.Assume(w.Bal(modAddr("market"), WorldDenom).Cmp(o.Amount.Amount.BigInt()) >= 0)
	nT := w.TransferCount()
	w.Sao.HandleTimeoutOrder(w.Ctx, id)
	sym.Cover("C12.replica-reduction")
	o1, still := w.Order.GetOrder(w.Ctx, id)
	_, bStill := w.Order.GetShard(w.Ctx, b.Id)
	sym.Assert("C12.reduction-drops-unstored-replica", still && o1.Replica == 1 && len(o1.Shards) == 1 && o1.Shards[0] == a.Id && !bStill)
	expected := sdk.NewDecFromInt(o.Amount.Amount).Sub(o.UnitPrice.Amount.MulInt64(int64(o.Size_)).MulInt64(1).MulInt64(int64(o.Duration))).TruncateInt()
	refunded := sdk.ZeroInt()
	for _, t := range w.TransfersSince(nT) {
		sym.Assert("C04.reduction-refund-to-owner", t.From == modAddr("market") && t.To == pa.Address)
		refunded = refunded.Add(newInt(t.Amt))
	}
	sym.Assert("C04.reduction-refund-amount", refunded.Equal(expected))
	sym.Assert("C04.reduction-books-refund", o1.Amount.Amount.Equal(o.Amount.Amount.Sub(refunded)))
}

// C02/C12 second timeout round: the order already carries a shard that timed out earlier next to the
// replacement that is waiting now; the end blocker returns (no panic with more spare providers than waiting
// shards) and hands out at most one replacement per waiting shard.
func Ob_C02C12C13C15_Timeout_SecondRound() {
	w := NewWorld()
	sym.SetBound("Order.Shards", 2)
	sym.SetEnumBound("node", nodetypes.NodeKeyPrefix, 2)
	sym.SetBound("Node.TxAddresses", 0)
	id := sym.Uint64("orderId")
	o, found := w.Order.GetOrder(w.Ctx, id)
	sym.Assume(found && o.Status == ordertypes.OrderDataReady && len(o.Shards) == 2 && o.Id == id && o.Shards[0] != o.Shards[1])
	s0, f0 := w.Order.GetShard(w.Ctx, o.Shards[0])
	s1, f1 := w.Order.GetShard(w.Ctx, o.Shards[1])
	sym.Assume(f0 && f1 && s0.Status == ordertypes.ShardTimeout && s1.Status == ordertypes.ShardWaiting && s0.Id == o.Shards[0] && s1.Id == o.Shards[1] && s0.Sp != s1.Sp)
	sym.Assume(uint64(w.Height())+o.Timeout < o.CreatedAt+o.Duration && uint64(w.Height()) >= o.CreatedAt)
	sc := w.Order.GetShardCount(w.Ctx)
	sym.Assume(sc < 1<<60 && sc > s0.Id && sc > s1.Id)
	_, taken := w.Order.GetShard(w.Ctx, sc)
	sym.Assume(!taken)
	// the re-assignment branch: not yet at the give-up bound (that branch is Ob_C05C12_Timeout_GiveUp's subject)
	sym.Assume(uint64(w.Height())-o.CreatedAt <= 10*o.Timeout && o.Timeout >= 1)
	w.Sao.HandleTimeoutOrder(w.Ctx, id) // a panic here halts the chain
	sym.Cover("C02.second-round-returns")
	o1, still := w.Order.GetOrder(w.Ctx, id)
	if still {
		sym.Assert("C12.second-round-at-most-one-replacement", len(o1.Shards) <= 3)
		if len(o1.Shards) == 3 {
			sym.Cover("C12.second-round-reassigned")
			ns, nf := w.Order.GetShard(w.Ctx, o1.Shards[2])
			sym.Assert("C13.second-round-new-shard", nf && ns.OrderId == id && ns.Status == ordertypes.ShardWaiting && ns.Sp != s0.Sp && ns.Sp != s1.Sp)
			old, of := w.Order.GetShard(w.Ctx, s1.Id)
			sym.Assert("C12.second-round-marks-waiting-shard", of && old.Status == ordertypes.ShardTimeout)
		}
	}
}
