//go:build verif

package zzverif

import (
	"fmt"

	modelkeeper "github.com/SaoNetwork/sao/x/model/keeper"
	modeltypes "github.com/SaoNetwork/sao/x/model/types"
	ordertypes "github.com/SaoNetwork/sao/x/order/types"
	"github.com/SaoNetwork/sao/zzverif/sym"
)

func aliasKey(m modeltypes.Metadata) string {
	return fmt.Sprintf("%s-%s-%s", m.Owner, m.Alias, m.GroupId)
}

// C16 T-history / C09: UpdateMeta op 1 appends exactly one (commit, order) to the history, op 3 (renew)
// only records the order, and nobody but the owner or a read-write grantee gets through.
func Ob_C09C16_UpdateMeta_Append() {
	w := NewWorld()
	var o ordertypes.Order
	sym.Fill("order", &o)
	sym.Assume(o.Operation == 1 || o.Operation == 3)
	m0, found := w.Model.GetMetadata(w.Ctx, o.DataId)
	snap := w.Snapshot()
	err := w.Model.UpdateMeta(w.Ctx, o)
	if err != nil {
		sym.Assert("C09.updatemeta-error-writes-nothing", !w.WrittenAny(snap, "model"))
		return
	}
	sym.Cover("C16.updatemeta-append")
	sym.Assert("C09.updatemeta-auth", found && (m0.Owner == o.Owner || inList(o.Owner, m0.ReadwriteDids)))
	m1, _ := w.Model.GetMetadata(w.Ctx, o.DataId)
	sym.Assert("C16.updatemeta-status-complete", m1.Status == modeltypes.MetaComplete)
	sym.Assert("C16.updatemeta-orders-append", len(m1.Orders) == len(m0.Orders)+1 && m1.Orders[len(m1.Orders)-1] == o.Id)
	for i := range m0.Orders {
		sym.Assert("C16.updatemeta-orders-prefix", m1.Orders[i] == m0.Orders[i])
	}
	if o.Operation == 1 {
		sym.Assert("C16.updatemeta-commits-append", len(m1.Commits) == len(m0.Commits)+1 && m1.Commit == o.Commit &&
			modelkeeper.CommitFromVersion(m1.Commits[len(m1.Commits)-1]) == o.Commit || sym.Or(containsSep(o.Commit)))
		for i := range m0.Commits {
			sym.Assert("C16.updatemeta-commits-prefix", m1.Commits[i] == m0.Commits[i])
		}
	} else {
		sym.Assert("C16.updatemeta-renew-keeps-commits", len(m1.Commits) == len(m0.Commits) && m1.Commit == m0.Commit && m1.OrderId == o.Id)
	}
	sym.Assert("C09.updatemeta-keeps-owner-and-grants", m1.Owner == m0.Owner && sym.DeepEq(&m0.ReadwriteDids, &m1.ReadwriteDids) && sym.DeepEq(&m0.ReadonlyDids, &m1.ReadonlyDids))
	for _, k := range w.WrittenString(snap, "model", modeltypes.MetadataKeyPrefix, "/") {
		sym.Assert("C16.updatemeta-frame", k == o.DataId)
	}
}

func containsSep(s string) bool { return sym.StrContains(s, string([]byte{26})) }

// C09 UpdatePermission: only the owner changes the permission lists, and only those.
func Ob_C09_UpdatePermission_Unit() {
	w := NewWorld()
	owner, dataId := sym.String("owner"), sym.String("dataId")
	var ro, rw []string
	if sym.Bool("hasRO") {
		ro = append(ro, sym.String("ro0"))
	}
	if sym.Bool("hasRW") {
		rw = append(rw, sym.String("rw0"))
	}
	m0, found := w.Model.GetMetadata(w.Ctx, dataId)
	snap := w.Snapshot()
	err := w.Model.UpdatePermission(w.Ctx, owner, dataId, ro, rw)
	if err != nil {
		sym.Assert("C09.updatepermission-error-writes-nothing", !w.WrittenAny(snap, "model"))
		return
	}
	sym.Cover("C09.updatepermission")
	sym.Assert("C09.updatepermission-owner-only", found && owner == m0.Owner)
	m1, _ := w.Model.GetMetadata(w.Ctx, dataId)
	sym.Assert("C09.updatepermission-only-lists", m1.Owner == m0.Owner && m1.Commit == m0.Commit && m1.Status == m0.Status &&
		m1.OrderId == m0.OrderId && m1.Duration == m0.Duration && sym.DeepEq(&m0.Commits, &m1.Commits) && sym.DeepEq(&m0.Orders, &m1.Orders))
}

// C13 I-M1 / C05: RollbackMeta of a never-committed model removes the model and its alias entry; of a
// committed model restores the last committed version.
func Ob_C05C11C13_RollbackMeta() {
	w := NewWorld()
	dataId := sym.String("dataId")
	sym.SetBound("Metadata.Orders", 2) // a renewed model lists more orders than commits
	m0, found := w.Model.GetMetadata(w.Ctx, dataId)
	sym.Assume(found)
	if sym.Tier() == "quick" {
		sym.SetBound("Order.Shards", 1)
	}
	snap := w.Snapshot()
	w.Model.RollbackMeta(w.Ctx, dataId)
	sym.Cover("C05.rollbackmeta")
	m1, still := w.Model.GetMetadata(w.Ctx, dataId)
	if len(m0.Commits) == 0 {
		_, alias := w.Model.GetModel(w.Ctx, aliasKey(m0))
		sym.Assert("C05.rollback-removes-uncommitted-model-and-alias", !still && !alias)
		// no stale expiry entry stays behind for the removed model (a later model with the same id
		// would be deleted at that height although its paid term has not ended)
		e, ef := w.Model.GetExpiredData(w.Ctx, m0.CreatedAt+m0.Duration)
		sym.AssertKF("C11.rollback-unschedules-removed-model", !ef || !inList(dataId, e.Data), sym.KF("KF-C11-1", true))
	} else {
		sym.Assert("C05.rollback-restores-last-version", still && m1.Status == modeltypes.MetaComplete &&
			m1.OrderId == m0.Orders[len(m0.Orders)-1] && sym.DeepEq(&m0.Commits, &m1.Commits) && sym.DeepEq(&m0.Orders, &m1.Orders) &&
			m1.Owner == m0.Owner && sym.DeepEq(&m0.ReadwriteDids, &m1.ReadwriteDids))
	}
	for _, k := range w.WrittenString(snap, "model", modeltypes.MetadataKeyPrefix, "/") {
		sym.Assert("C05.rollback-frame", k == dataId)
	}
}

// C13 I-M1: NewMeta creates the model together with exactly one alias entry pointing back at it.
func Ob_C13C11_NewMeta() {
	w := NewWorld()
	var o ordertypes.Order
	var m modeltypes.Metadata
	sym.Fill("order", &o)
	sym.Fill("meta", &m)
	sym.Assume(o.CreatedAt < 1<<40 && o.Duration < 1<<40)
	err := w.Model.NewMeta(w.Ctx, o, m)
	if err != nil {
		return
	}
	sym.Cover("C13.newmeta")
	got, found := w.Model.GetMetadata(w.Ctx, m.DataId)
	al, afound := w.Model.GetModel(w.Ctx, aliasKey(m))
	sym.Assert("C13.newmeta-model-and-alias", found && afound && al.Data == m.DataId && got.DataId == m.DataId && got.Owner == m.Owner)
	e, efound := w.Model.GetExpiredData(w.Ctx, o.CreatedAt+o.Duration)
	sym.Assert("C11.newmeta-expiry-scheduled", efound && inList(m.DataId, e.Data))
}

// C16/C11 UpdateMetaStatusAndCommit (MsgStore marking an update of an existing model as in flight): a successful
// call records the update on the stored model - status, commit and order id - whatever the durations are, never
// shortens the model's life, and a second update is refused while that one is in flight.
func Ob_C16C11_UpdateMetaStatusAndCommit() {
	w := NewWorld()
	sym.SetBound("ExpiredData.Data", 1)
	var o1, o2 ordertypes.Order
	sym.Fill("order1", &o1)
	sym.Fill("order2", &o2)
	sym.Assume(InvOrder(o1) && InvOrder(o2) && o1.Operation <= 2 && o2.Operation <= 2 && o2.DataId == o1.DataId)
	m0, found := w.Model.GetMetadata(w.Ctx, o1.DataId)
	err1 := w.Model.UpdateMetaStatusAndCommit(w.Ctx, o1)
	if err1 != nil {
		return
	}
	sym.Cover("C16.update-marked-in-flight")
	m1, still := w.Model.GetMetadata(w.Ctx, o1.DataId)
	sym.Assert("C16.in-flight-recorded", found && still && m0.Status == modeltypes.MetaComplete &&
		m1.Status == int32(o1.Operation) && m1.Commit == o1.Commit && m1.OrderId == o1.Id)
	sym.Assert("C11.update-never-shortens-life", m1.CreatedAt == m0.CreatedAt && m1.Duration >= m0.Duration)
	err2 := w.Model.UpdateMetaStatusAndCommit(w.Ctx, o2)
	sym.Assert("C16.second-update-refused-while-one-in-flight", err2 != nil)
}
