//go:build verif

package zzverif

import (
	nodemodule "github.com/SaoNetwork/sao/x/node"
	nodetypes "github.com/SaoNetwork/sao/x/node/types"
	"github.com/SaoNetwork/sao/zzverif/sym"
)

const spStatus = nodetypes.NODE_STATUS_ONLINE | nodetypes.NODE_STATUS_SERVE_STORAGE | nodetypes.NODE_STATUS_ACCEPT_ORDER

// C02/C15 GetNextSuperNodes: terminates for every stored cursor and super-node population, and the node it
// returns is an eligible super node that is not on the ignore list.
func Ob_C02C15_GetNextSuperNodes() {
	w := NewWorld()
	sym.SetEnumBound("node", nodetypes.NodeKeyPrefix, 2)
	size := sym.Int64("size")
	sym.Assume(size >= 0 && size < 1<<40)
	var ignore []string
	if sym.Bool("hasIgnore") {
		ignore = append(ignore, sym.String("ignore0"))
	}
	n := w.Node.GetNextSuperNodes(w.Ctx, spStatus, 8000.0, ignore, size)
	sym.Cover("C15.getnextsupernodes-returns")
	if n.Creator != "" {
		sym.Cover("C15.getnextsupernodes-selects")
		p, f := w.Node.GetPledge(w.Ctx, n.Creator)
		sym.Assert("C15.super-eligible", n.Role == nodetypes.NODE_SUPER && n.Status&spStatus == spStatus && n.Reputation >= 8000.0 &&
			f && p.TotalStorage-p.UsedStorage >= size && !inList(n.Creator, ignore))
	}
}

// C15 RandomSP: the selected providers are distinct, eligible, have room for the shard, are not on the
// ignore list, and are at most as many as requested.
func Ob_C15_RandomSP() {
	w := NewWorld()
	if sym.Tier() == "quick" {
		sym.SetEnumBound("node", nodetypes.NodeKeyPrefix, 2)
	} else {
		sym.SetEnumBound("node", nodetypes.NodeKeyPrefix, 3)
	}
	// the round-robin cursor is in range (its out-of-range behaviour is Ob_C02C15_GetNextSuperNodes' subject)
	sym.Assume(len(w.Ctx.BlockHeader().AppHash) >= 0)
	count := sym.Int("count")
	sym.Assume(count >= 1 && count <= 2)
	count = sym.ConcreteInt(count, 1, 2)
	size := sym.Int64("size")
	sym.Assume(size >= 1 && size < 1<<40)
	var ignore []string
	if sym.Bool("hasIgnore") {
		ignore = append(ignore, sym.String("ignore0"))
	}
	sps := w.Node.RandomSP(w.Ctx, count, ignore, size)
	sym.Cover("C15.randomsp-returns")
	sym.Assert("C15.randomsp-count", len(sps) <= count)
	for i := range sps {
		p, f := w.Node.GetPledge(w.Ctx, sps[i].Creator)
		sym.Assert("C15.randomsp-eligible", sps[i].Status&spStatus == spStatus && sps[i].Reputation >= 8000.0 &&
			f && p.TotalStorage-p.UsedStorage >= size)
		sym.Assert("C15.randomsp-not-ignored", !inList(sps[i].Creator, ignore))
		for j := 0; j < i; j++ {
			sym.Assert("C15.randomsp-distinct", sps[i].Creator != sps[j].Creator)
		}
	}
}

// C02 node.EndBlock: offline detection (and the penalty tick) return normally from every invariant state.
func Ob_C02C19_NodeEndBlock() {
	w := NewWorld()
	sym.SetEnumBound("node", nodetypes.NodeKeyPrefix, 2)
	sym.SetEnumBound("node", nodetypes.FaultKeyPrefix, 1)
	concreteNodeParams(w, 1000000, 1000000000000)
	snap := w.Snapshot()
	nodemodule.EndBlock(w.Ctx, w.Node)
	sym.Cover("C02.node-endblock-returns")
	sym.Assert("C19.endblock-touches-only-node-store", !w.WrittenAny(snap, "order") && !w.WrittenAny(snap, "market") && !w.WrittenAny(snap, "model") && !w.WrittenAny(snap, "did"))
}
