//go:build verif && gosym

package zzverif

import (
	"math/big"

	didkeeper "github.com/SaoNetwork/sao/x/did/keeper"
	didtypes "github.com/SaoNetwork/sao/x/did/types"
	marketkeeper "github.com/SaoNetwork/sao/x/market/keeper"
	markettypes "github.com/SaoNetwork/sao/x/market/types"
	modelkeeper "github.com/SaoNetwork/sao/x/model/keeper"
	modeltypes "github.com/SaoNetwork/sao/x/model/types"
	nodekeeper "github.com/SaoNetwork/sao/x/node/keeper"
	nodetypes "github.com/SaoNetwork/sao/x/node/types"
	orderkeeper "github.com/SaoNetwork/sao/x/order/keeper"
	ordertypes "github.com/SaoNetwork/sao/x/order/types"
	saokeeper "github.com/SaoNetwork/sao/x/sao/keeper"
	saotypes "github.com/SaoNetwork/sao/x/sao/types"
	"github.com/SaoNetwork/sao/zzverif/sym"
	"github.com/cosmos/cosmos-sdk/codec"
	codectypes "github.com/cosmos/cosmos-sdk/codec/types"
	storetypes "github.com/cosmos/cosmos-sdk/store/types"
	sdk "github.com/cosmos/cosmos-sdk/types"
	sdkerrors "github.com/cosmos/cosmos-sdk/types/errors"
	authtypes "github.com/cosmos/cosmos-sdk/x/auth/types"
	stakingtypes "github.com/cosmos/cosmos-sdk/x/staking/types"
	"github.com/gogo/protobuf/proto"
	"github.com/tendermint/tendermint/libs/log"
	tmproto "github.com/tendermint/tendermint/proto/tendermint/types"
)

// ---- codec stub: every method is an engine intrinsic (opaque tokens of record snapshots)

type SymCodec struct{}

func (SymCodec) Marshal(o codec.ProtoMarshaler) ([]byte, error)                 { return nil, nil }
func (SymCodec) MustMarshal(o codec.ProtoMarshaler) []byte                      { return nil }
func (SymCodec) MarshalLengthPrefixed(o codec.ProtoMarshaler) ([]byte, error)   { panic("unsupported") }
func (SymCodec) MustMarshalLengthPrefixed(o codec.ProtoMarshaler) []byte        { panic("unsupported") }
func (SymCodec) Unmarshal(bz []byte, ptr codec.ProtoMarshaler) error            { return nil }
func (SymCodec) MustUnmarshal(bz []byte, ptr codec.ProtoMarshaler)              {}
func (SymCodec) UnmarshalLengthPrefixed(bz []byte, ptr codec.ProtoMarshaler) error { panic("unsupported") }
func (SymCodec) MustUnmarshalLengthPrefixed(bz []byte, ptr codec.ProtoMarshaler) { panic("unsupported") }
func (SymCodec) MarshalInterface(i proto.Message) ([]byte, error)              { panic("unsupported") }
func (SymCodec) UnmarshalInterface(bz []byte, ptr interface{}) error           { panic("unsupported") }
func (SymCodec) UnpackAny(any *codectypes.Any, iface interface{}) error        { panic("unsupported") }

// ---- logger stub

type NopLogger struct{}

func (NopLogger) Debug(msg string, keyvals ...interface{}) {}
func (NopLogger) Info(msg string, keyvals ...interface{})  {}
func (NopLogger) Error(msg string, keyvals ...interface{}) {}
func (l NopLogger) With(keyvals ...interface{}) log.Logger { return l }

// ---- bank / account model: transcription of cosmos-sdk v0.46.2 x/bank/keeper (send.go, keeper.go)
// over an open-world ledger; no vesting (locked = 0).

type BalKey struct {
	Addr  string
	Denom string
}

type Transfer struct {
	From, To string // bech32 / "mod:<name>"; "" = mint (From) or burn (To)
	Denom    string
	Amt      *big.Int
}

type SymBank struct {
	bal  map[BalKey]*big.Int
	init map[BalKey]*big.Int
	Log  []Transfer
}

func NewSymBank() *SymBank { return &SymBank{bal: map[BalKey]*big.Int{}, init: map[BalKey]*big.Int{}} }

// restore resets every balance to its value at a snapshot; accounts first touched later return to their
// (remembered) initial balance.
func (b *SymBank) restore(old map[BalKey]*big.Int) {
	nb := map[BalKey]*big.Int{}
	for k := range b.bal {
		if v, ok := old[k]; ok {
			nb[k] = v
		} else {
			nb[k] = b.init[k]
		}
	}
	b.bal = nb
}

func (b *SymBank) balance(addr, denom string) *big.Int {
	k := BalKey{addr, denom}
	if v, ok := b.bal[k]; ok {
		return v
	}
	v := sym.InitBalance(addr, denom)
	b.bal[k] = v
	b.init[k] = v
	return v
}

// Bal is the harness-side accessor (current balance as a mathematical integer).
func (b *SymBank) Bal(addr, denom string) *big.Int { return new(big.Int).Set(b.balance(addr, denom)) }

func modAddr(name string) string { return authtypes.NewModuleAddress(name).String() }

func (b *SymBank) GetBalance(ctx sdk.Context, addr sdk.AccAddress, denom string) sdk.Coin {
	return sdk.NewCoin(denom, sdk.NewIntFromBigInt(b.Bal(addr.String(), denom)))
}

// SpendableCoins / GetAllBalances: the modules only ever look at one denomination of the result; the
// model reports the balance in the world's coherent denomination.
func (b *SymBank) SpendableCoins(ctx sdk.Context, addr sdk.AccAddress) sdk.Coins {
	return b.GetAllBalances(ctx, addr)
}

func (b *SymBank) GetAllBalances(ctx sdk.Context, addr sdk.AccAddress) sdk.Coins {
	v := b.Bal(addr.String(), WorldDenom)
	if v.Sign() == 0 {
		return sdk.Coins{}
	}
	return sdk.Coins{sdk.NewCoin(WorldDenom, sdk.NewIntFromBigInt(v))}
}

func coinsValid(amt sdk.Coins) bool {
	// sdk.Coins.IsValid for the single-coin lists the modules build
	switch len(amt) {
	case 0:
		return true
	case 1:
		if err := sdk.ValidateDenom(amt[0].Denom); err != nil {
			return false
		}
		return amt[0].IsPositive()
	}
	return amt.IsValid()
}

func (b *SymBank) sendCoins(from, to string, amt sdk.Coins) error {
	// subUnlockedCoins
	if !coinsValid(amt) {
		return sdkerrors.Wrap(sdkerrors.ErrInvalidCoins, "invalid coins")
	}
	for _, c := range amt {
		bal := b.balance(from, c.Denom)
		if bal.Cmp(c.Amount.BigInt()) < 0 {
			return sdkerrors.Wrapf(sdkerrors.ErrInsufficientFunds, "insufficient funds")
		}
	}
	for _, c := range amt {
		kf := BalKey{from, c.Denom}
		b.bal[kf] = new(big.Int).Sub(b.balance(from, c.Denom), c.Amount.BigInt())
		kt := BalKey{to, c.Denom}
		b.bal[kt] = new(big.Int).Add(b.balance(to, c.Denom), c.Amount.BigInt())
		b.Log = append(b.Log, Transfer{From: from, To: to, Denom: c.Denom, Amt: c.Amount.BigInt()})
	}
	return nil
}

func (b *SymBank) SendCoinsFromModuleToAccount(ctx sdk.Context, senderModule string, recipientAddr sdk.AccAddress, amt sdk.Coins) error {
	if !sym.ModuleRegistered(senderModule) {
		panic("module account " + senderModule + " does not exist")
	}
	if sym.BlockedAddr(recipientAddr.String()) {
		return sdkerrors.Wrapf(sdkerrors.ErrUnauthorized, "%s is not allowed to receive funds", recipientAddr)
	}
	return b.sendCoins(modAddr(senderModule), recipientAddr.String(), amt)
}

func (b *SymBank) SendCoinsFromModuleToModule(ctx sdk.Context, senderModule, recipientModule string, amt sdk.Coins) error {
	if !sym.ModuleRegistered(senderModule) {
		panic("module account " + senderModule + " does not exist")
	}
	if !sym.ModuleRegistered(recipientModule) {
		panic("module account " + recipientModule + " does not exist")
	}
	return b.sendCoins(modAddr(senderModule), modAddr(recipientModule), amt)
}

func (b *SymBank) SendCoinsFromAccountToModule(ctx sdk.Context, senderAddr sdk.AccAddress, recipientModule string, amt sdk.Coins) error {
	if !sym.ModuleRegistered(recipientModule) {
		panic("module account " + recipientModule + " does not exist")
	}
	return b.sendCoins(senderAddr.String(), modAddr(recipientModule), amt)
}

func (b *SymBank) MintCoins(ctx sdk.Context, name string, amt sdk.Coins) error {
	if !sym.ModuleRegistered(name) {
		panic("module account " + name + " does not exist")
	}
	if !sym.ModuleHasPerm(name, authtypes.Minter) {
		panic("module account " + name + " does not have permissions to mint tokens")
	}
	if !coinsValid(amt) {
		return sdkerrors.Wrap(sdkerrors.ErrInvalidCoins, "invalid coins")
	}
	for _, c := range amt {
		k := BalKey{modAddr(name), c.Denom}
		b.bal[k] = new(big.Int).Add(b.balance(modAddr(name), c.Denom), c.Amount.BigInt())
		b.Log = append(b.Log, Transfer{From: "", To: modAddr(name), Denom: c.Denom, Amt: c.Amount.BigInt()})
	}
	return nil
}

// ---- account keeper

type SymAccount struct{}

func (SymAccount) GetAccount(ctx sdk.Context, addr sdk.AccAddress) authtypes.AccountI { return nil }
func (SymAccount) GetModuleAddress(moduleName string) sdk.AccAddress {
	if !sym.ModuleRegistered(moduleName) {
		return nil
	}
	return authtypes.NewModuleAddress(moduleName)
}
func (SymAccount) NewAccount(ctx sdk.Context, a authtypes.AccountI) authtypes.AccountI { return a }
func (SymAccount) NewAccountWithAddress(ctx sdk.Context, addr sdk.AccAddress) authtypes.AccountI {
	return nil
}
func (SymAccount) GetAllAccounts(ctx sdk.Context) []authtypes.AccountI { return nil }
func (SymAccount) HasAccount(ctx sdk.Context, addr sdk.AccAddress) bool { return true }
func (SymAccount) SetAccount(ctx sdk.Context, acc authtypes.AccountI)  {}
func (SymAccount) IterateAccounts(ctx sdk.Context, process func(authtypes.AccountI) bool) {}
func (SymAccount) ValidatePermissions(macc authtypes.ModuleAccountI) error { return nil }
func (SymAccount) GetModuleAddressAndPermissions(moduleName string) (sdk.AccAddress, []string) {
	panic("unsupported")
}
func (SymAccount) GetModuleAccountAndPermissions(ctx sdk.Context, moduleName string) (authtypes.ModuleAccountI, []string) {
	panic("unsupported")
}
func (SymAccount) GetModuleAccount(ctx sdk.Context, moduleName string) authtypes.ModuleAccountI {
	if !sym.ModuleRegistered(moduleName) {
		return nil
	}
	return authtypes.NewEmptyModuleAccount(moduleName)
}
func (SymAccount) SetModuleAccount(ctx sdk.Context, macc authtypes.ModuleAccountI) {}

// ---- staking keeper model: symbolic tables, at most two delegations per query

type DelKey struct{ Del, Val string }

type SymStaking struct {
	Denom string
	dels  map[DelKey]*stakingtypes.Delegation // nil entry = no delegation
	vals  map[string]*stakingtypes.Validator
	// ValDels lists the delegators the model considers for GetValidatorDelegations
	ValDels map[string][]string
}

func NewSymStaking(denom string) *SymStaking {
	return &SymStaking{Denom: denom, dels: map[DelKey]*stakingtypes.Delegation{}, vals: map[string]*stakingtypes.Validator{}, ValDels: map[string][]string{}}
}

func (s *SymStaking) BondDenom(ctx sdk.Context) string { return s.Denom }

func (s *SymStaking) SetDelegation(del, val string, shares sdk.Dec) {
	s.dels[DelKey{del, val}] = &stakingtypes.Delegation{DelegatorAddress: del, ValidatorAddress: val, Shares: shares}
}
func (s *SymStaking) RemoveDelegation(del, val string) { s.dels[DelKey{del, val}] = nil }
func (s *SymStaking) SetValidator(val string, v stakingtypes.Validator) {
	vv := v
	s.vals[val] = &vv
}
func (s *SymStaking) RemoveValidator(val string) { s.vals[val] = nil }

// DeclareDelegation / DeclareValidator fix, up front and in program order, what the staking module holds
// for the given pair (closed world: anything not declared does not exist).
func (s *SymStaking) DeclareDelegation(del, val string) {
	var d *stakingtypes.Delegation
	if sym.Bool("staking.del.present") {
		d = &stakingtypes.Delegation{DelegatorAddress: del, ValidatorAddress: val, Shares: sym.DecNonNeg("staking.del.shares")}
	}
	s.dels[DelKey{del, val}] = d
	s.ValDels[val] = append(s.ValDels[val], del)
}

func (s *SymStaking) DeclareValidator(val string) {
	var v *stakingtypes.Validator
	if sym.Bool("staking.val.present") {
		v = &stakingtypes.Validator{OperatorAddress: val, DelegatorShares: sym.DecNonNeg("staking.val.shares"), Tokens: sdk.NewIntFromBigInt(sym.NonNegBig("staking.val.tokens"))}
	}
	s.vals[val] = v
}

func (s *SymStaking) delegation(del, val string) *stakingtypes.Delegation {
	return s.dels[DelKey{del, val}]
}

func (s *SymStaking) GetDelegation(ctx sdk.Context, accAddress sdk.AccAddress, valAddress sdk.ValAddress) (stakingtypes.Delegation, bool) {
	d := s.delegation(accAddress.String(), valAddress.String())
	if d == nil {
		return stakingtypes.Delegation{}, false
	}
	return *d, true
}

func (s *SymStaking) Delegation(ctx sdk.Context, a sdk.AccAddress, v sdk.ValAddress) stakingtypes.DelegationI {
	d := s.delegation(a.String(), v.String())
	if d == nil {
		return nil
	}
	return *d
}

func (s *SymStaking) GetValidator(ctx sdk.Context, addr sdk.ValAddress) (stakingtypes.Validator, bool) {
	v := s.vals[addr.String()]
	if v == nil {
		return stakingtypes.Validator{}, false
	}
	return *v, true
}

func (s *SymStaking) GetValidatorDelegations(ctx sdk.Context, valAddr sdk.ValAddress) (delegations []stakingtypes.Delegation) {
	for _, del := range s.ValDels[valAddr.String()] {
		if d := s.delegation(del, valAddr.String()); d != nil {
			delegations = append(delegations, *d)
		}
	}
	return
}

func (s *SymStaking) GetUnbondingDelegationsFromValidator(ctx sdk.Context, valAddr sdk.ValAddress) []stakingtypes.UnbondingDelegation {
	return nil
}
func (s *SymStaking) GetDelegatorDelegations(ctx sdk.Context, delegator sdk.AccAddress, maxRetrieve uint16) (delegations []stakingtypes.Delegation) {
	for k, d := range s.dels {
		if d != nil && k.Del == delegator.String() {
			delegations = append(delegations, *d)
		}
	}
	return
}
func (s *SymStaking) GetUnbondingDelegation(ctx sdk.Context, delAddr sdk.AccAddress, valAddr sdk.ValAddress) (stakingtypes.UnbondingDelegation, bool) {
	return stakingtypes.UnbondingDelegation{}, false
}

// ---- world

const WorldDenom = "sao"

type World struct {
	Ctx     sdk.Context
	Bank    *SymBank
	Acct    SymAccount
	Staking *SymStaking

	Did      didkeeper.Keeper
	Order    orderkeeper.Keeper
	Market   marketkeeper.Keeper
	Node     nodekeeper.Keeper
	HookNode nodekeeper.Keeper // the first, half-wired NodeKeeper of app.go whose Hooks() staking calls
	Model    modelkeeper.Keeper
	Sao      saokeeper.Keeper

	SaoMsg  saotypes.MsgServer
	NodeMsg nodetypes.MsgServer
	DidMsg  didtypes.MsgServer

	bankSnaps []bankSnap
}

type bankSnap struct {
	id   int
	bal  map[BalKey]*big.Int
	nlog int
}

func (w *World) Height() int64 { return w.Ctx.BlockHeight() }

// NewWorld wires the keepers in the order and with the (partly zero-valued) copies that app/app.go uses.
func NewWorld() *World {
	w := &World{}
	h := sym.Int64("height")
	sym.Assume(h >= 1 && h < 1<<62)
	apphash := []byte(sym.String("apphash"))
	hdr := tmproto.Header{Height: h, Time: sym.Time(sym.Int64("blocktime")), AppHash: apphash, ChainID: ChainID}
	w.Ctx = sdk.Context{}.WithBlockHeader(hdr).WithChainID(ChainID).WithLogger(NopLogger{}).WithEventManager(sdk.NewEventManager())
	w.Bank = NewSymBank()
	w.Staking = NewSymStaking(WorldDenom)
	declareSchemas()
	declareInvariants()
	w.wire("")
	return w
}

// NewEmptyTwin: a second family of module stores that is empty (a freshly initialised chain), sharing the
// context, bank and staking models of w. Genesis import writes into it.
func NewEmptyTwin(w *World) *World {
	t := &World{Ctx: w.Ctx, Bank: w.Bank, Staking: w.Staking}
	for _, name := range []string{saotypes.StoreKey, nodetypes.StoreKey, ordertypes.StoreKey, modeltypes.StoreKey, markettypes.StoreKey, didtypes.StoreKey} {
		sym.DeclareEmptyStore(name + "2")
	}
	declareSchemasFor("2")
	t.wire("2")
	return t
}

// Rewire: the same committed stores served by freshly constructed keeper objects (what a node restarted
// from its database has: nothing that lived in process memory survives).
func (w *World) Rewire() *World {
	t := &World{Ctx: w.Ctx, Bank: w.Bank, Staking: w.Staking, bankSnaps: w.bankSnaps}
	t.wire("")
	return t
}

func (w *World) wire(sfx string) {
	cdc := SymCodec{}
	kSao := sdk.NewKVStoreKey(saotypes.StoreKey + sfx)
	kNode := sdk.NewKVStoreKey(nodetypes.StoreKey + sfx)
	kOrder := sdk.NewKVStoreKey(ordertypes.StoreKey + sfx)
	kModel := sdk.NewKVStoreKey(modeltypes.StoreKey + sfx)
	kMarket := sdk.NewKVStoreKey(markettypes.StoreKey + sfx)
	kDid := sdk.NewKVStoreKey(didtypes.StoreKey + sfx)
	var nilKey *storetypes.KVStoreKey // keys[...MemStoreKey] is a missing map entry in app.go: typed nil pointer

	// app.go:446 — first NodeKeeper: OrderKeeper and MarketKeeper are still zero values
	var zeroOrder orderkeeper.Keeper
	var zeroMarket marketkeeper.Keeper
	w.HookNode = *nodekeeper.NewKeeper(w.Acct, w.Bank, zeroOrder, w.Staking, zeroMarket, cdc, kNode, nilKey, kOrder, sym.Subspace(nodetypes.ModuleName+sfx, &nodetypes.Params{}))

	w.Did = *didkeeper.NewKeeper(cdc, kDid, nilKey, sym.Subspace(didtypes.ModuleName+sfx, &didtypes.Params{}), w.Acct, w.Bank)
	w.Order = *orderkeeper.NewKeeper(w.Acct, w.Bank, w.Did, cdc, kOrder, nilKey, kModel, kMarket, sym.Subspace(ordertypes.ModuleName+sfx, &ordertypes.Params{}))
	w.Market = *marketkeeper.NewKeeper(w.Bank, w.Order, cdc, kMarket, kOrder, nilKey, sym.Subspace(markettypes.ModuleName+sfx, &markettypes.Params{}))
	w.Node = *nodekeeper.NewKeeper(w.Acct, w.Bank, w.Order, w.Staking, w.Market, cdc, kNode, nilKey, kOrder, sym.Subspace(nodetypes.ModuleName+sfx, &nodetypes.Params{}))
	w.Model = *modelkeeper.NewKeeper(w.Acct, w.Order, w.Did, w.Bank, w.Node, w.Market, cdc, kModel, kOrder, nilKey, sym.Subspace(modeltypes.ModuleName+sfx, &modeltypes.Params{}))
	w.Sao = *saokeeper.NewKeeper(w.Acct, w.Bank, w.Node, w.Order, w.Model, w.Did, w.Market, w.Staking, cdc, kSao, kOrder, nilKey, sym.Subspace(saotypes.ModuleName+sfx, &saotypes.Params{}))

	w.SaoMsg = saokeeper.NewMsgServerImpl(w.Sao)
	w.NodeMsg = nodekeeper.NewMsgServerImpl(w.Node)
	w.DidMsg = didkeeper.NewMsgServerImpl(w.Did)
}

func (w *World) TransferCount() int              { return len(w.Bank.Log) }
func (w *World) TransfersSince(n int) []Transfer { return w.Bank.Log[n:] }
func (w *World) Bal(addr, denom string) *big.Int { return w.Bank.Bal(addr, denom) }

func (w *World) Snapshot() int {
	id := sym.Snapshot()
	cp := map[BalKey]*big.Int{}
	for k, v := range w.Bank.bal {
		cp[k] = v
	}
	w.bankSnaps = append(w.bankSnaps, bankSnap{id: id, bal: cp, nlog: len(w.Bank.Log)})
	return id
}

// Rollback discards the writes and transfers made since the snapshot; the materialised pre-state stays,
// so a second run sees exactly the same committed state as the first.
func (w *World) Rollback(snap int) {
	sym.Rollback(snap)
	for _, bs := range w.bankSnaps {
		if bs.id == snap {
			// balances first read after the snapshot stay initial balances: keep them
			for k, v := range w.Bank.bal {
				if _, ok := bs.bal[k]; !ok {
					_ = v
				}
			}
			w.Bank.restore(bs.bal)
			w.Bank.Log = w.Bank.Log[:bs.nlog]
		}
	}
	w.Ctx = w.Ctx.WithEventManager(sdk.NewEventManager())
}
func (w *World) At(snap int, f func())   { sym.At(snap, f) }
func (w *World) WrittenUint64(snap int, store, prefix string) []uint64 {
	return sym.WrittenUint64(snap, store, prefix)
}
func (w *World) WrittenString(snap int, store, prefix, suffix string) []string {
	return sym.WrittenString(snap, store, prefix, suffix)
}
func (w *World) WrittenAny(snap int, store string) bool { return sym.WrittenAny(snap, store) }
func (w *World) WrittenOutside(snap int, store string, allowed ...string) bool {
	return sym.WrittenOutside(snap, store, allowed...)
}

// validProofFor: a binding-proof signature string that the account `addr` really produced over `message`
// (symbolically: any string satisfying the reference reading of the proof check).
func validProofFor(addr, message string) string {
	s := sym.String("proofsig")
	sym.Assume(cosmosSigOK(addr, message, s))
	return s
}

// ModuleRegistered / Blocked: facts of the application wiring (maccPerms, blocked addresses of app.go).
func (w *World) ModuleRegistered(name string) bool { return sym.ModuleRegistered(name) }
func (w *World) Blocked(addr string) bool         { return sym.BlockedAddr(addr) }
