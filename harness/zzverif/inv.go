//go:build verif

package zzverif

import (
	"math/big"

	didtypes "github.com/SaoNetwork/sao/x/did/types"
	markettypes "github.com/SaoNetwork/sao/x/market/types"
	modeltypes "github.com/SaoNetwork/sao/x/model/types"
	nodetypes "github.com/SaoNetwork/sao/x/node/types"
	ordertypes "github.com/SaoNetwork/sao/x/order/types"
	"github.com/SaoNetwork/sao/zzverif/sym"
	sdk "github.com/cosmos/cosmos-sdk/types"
)

// Single-record representation invariants (assumed on every record of the pre-state; the
// "single coherent denomination" of the property statements is imposed by fixing every Denom field).
// They are themselves checked on every record a handler writes when sym.CheckInvOnWrite is on.

func validAddr(s string) bool {
	_, err := sdk.AccAddressFromBech32(s)
	return err == nil
}

func nonNegCoin(c sdk.Coin) bool       { return !c.Amount.IsNegative() }
func nonNegDecCoin(c sdk.DecCoin) bool { return !c.Amount.IsNegative() }

func InvOrder(o ordertypes.Order) bool {
	return sym.And(nonNegCoin(o.Amount), nonNegDecCoin(o.UnitPrice), o.Status >= 0, o.Status <= 7, o.Replica >= 0,
		o.Size_ >= 1, o.Size_ < 1<<40, o.Duration < 1<<40, o.CreatedAt < 1<<40, o.Timeout < 1<<40, o.Replica < 1<<16,
		// a renewal order (operation 3) is created from a completed order with that status and is paid straight to the market
		sym.Or(o.Operation != 3, o.Status == ordertypes.OrderCompleted))
}

func InvShard(s ordertypes.Shard) bool {
	return sym.And(validAddr(s.Sp), nonNegCoin(s.Pledge), s.Status >= 0, s.Status <= 5,
		s.Size_ >= 1, s.Size_ < 1<<40, s.Duration < 1<<40, s.CreatedAt < 1<<40)
}

func InvPledge(p nodetypes.Pledge) bool {
	return sym.And(validAddr(p.Creator), nonNegCoin(p.TotalStoragePledged), nonNegCoin(p.TotalShardPledged),
		nonNegDecCoin(p.Reward), nonNegDecCoin(p.RewardDebt), p.TotalStorage >= 0, p.UsedStorage >= 0,
		p.UsedStorage <= p.TotalStorage, p.TotalStorage < 1<<50)
}

func InvPledgeDebt(d nodetypes.PledgeDebt) bool { return sym.And(validAddr(d.Sp), nonNegCoin(d.Debt)) }

func InvPool(p nodetypes.Pool) bool {
	return sym.And(nonNegCoin(p.TotalPledged), nonNegCoin(p.TotalReward), nonNegDecCoin(p.AccRewardPerByte),
		nonNegDecCoin(p.AccPledgePerByte), nonNegDecCoin(p.RewardPerBlock), nonNegDecCoin(p.NextRewardPerBlock),
		p.TotalStorage >= 0, p.TotalStorage < 1<<55, p.RewardedBlockCount >= 0)
}

func InvNode(n nodetypes.Node) bool {
	return sym.And(validAddr(n.Creator), n.Status < 1<<12, n.Role <= 1, n.LastAliveHeight >= 0, n.LastAliveHeight < 1<<40)
}

func InvWorker(w markettypes.Worker) bool {
	return sym.And(nonNegDecCoin(w.Reward), nonNegDecCoin(w.IncomePerSecond), w.LastRewardAt >= 0, w.LastRewardAt < 1<<40, w.Storage < 1<<50)
}

func InvMetadata(m modeltypes.Metadata) bool {
	return sym.And(len(m.DataId) == 36, m.Duration < 1<<40, m.CreatedAt < 1<<40, m.Status >= 0, m.Status <= 4,
		len(m.Commits) <= len(m.Orders))
}

// InvExpiredData: a model is scheduled for deletion once - no data id twice in one height's list (every writer
// adds an id only after removing the model's previous entry; DeleteMeta and RollbackMeta unschedule).
func InvExpiredData(e modeltypes.ExpiredData) bool {
	r := true
	for i := range e.Data {
		for j := 0; j < i; j++ {
			r = sym.And(r, e.Data[i] != e.Data[j])
		}
	}
	return r
}

func InvPaymentAddress(p didtypes.PaymentAddress) bool { return validAddr(p.Address) }

func InvDidBalances(b didtypes.DidBalances) bool { return nonNegCoin(b.Balance) }

func declareInvariants() {
	sym.FixField("Denom", WorldDenom)
	sym.DeclareInv(&ordertypes.Order{}, InvOrder)
	sym.DeclareInv(&ordertypes.Shard{}, InvShard)
	sym.DeclareInv(&nodetypes.Pledge{}, InvPledge)
	sym.DeclareInv(&nodetypes.PledgeDebt{}, InvPledgeDebt)
	sym.DeclareInv(&nodetypes.Pool{}, InvPool)
	sym.DeclareInv(&nodetypes.Node{}, InvNode)
	sym.DeclareInv(&markettypes.Worker{}, InvWorker)
	sym.DeclareInv(&modeltypes.Metadata{}, InvMetadata)
	sym.DeclareInv(&modeltypes.ExpiredData{}, InvExpiredData)
	sym.DeclareInv(&didtypes.PaymentAddress{}, InvPaymentAddress)
	sym.DeclareInv(&didtypes.DidBalances{}, InvDidBalances)
}

func newInt(b *big.Int) sdk.Int { return sdk.NewIntFromBigInt(b) }
