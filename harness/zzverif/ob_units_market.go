//go:build verif

package zzverif

import (
	"fmt"

	markettypes "github.com/SaoNetwork/sao/x/market/types"
	ordertypes "github.com/SaoNetwork/sao/x/order/types"
	"github.com/SaoNetwork/sao/zzverif/sym"
	sdk "github.com/cosmos/cosmos-sdk/types"
)

func workerName(sp string) string { return fmt.Sprintf("%s-%s", WorldDenom, sp) }

// claimable(w, now) = Reward + IncomePerSecond * (now - LastRewardAt): what the market owes a worker.
func claimable(wk markettypes.Worker, now int64) sdk.Dec {
	return wk.Reward.Amount.Add(wk.IncomePerSecond.Amount.MulInt64(now - wk.LastRewardAt))
}

// C04/C14 I-accrual: WorkerAppend settles accrued income before raising the rate; rate and bytes go up by
// exactly price*size and size; nothing else is written and no coin moves.
func Ob_C04C14_WorkerAppend() {
	w := NewWorld()
	var o ordertypes.Order
	var s ordertypes.Shard
	sym.Fill("order", &o)
	sym.Fill("shard", &s)
	sym.Assume(InvOrder(o) && InvShard(s) && s.CreatedAt <= uint64(w.Height()))
	wk0, had := w.Market.GetWorker(w.Ctx, workerName(s.Sp))
	sym.Assume(!had || wk0.LastRewardAt <= w.Height())
	snap, nT := w.Snapshot(), w.TransferCount()
	err := w.Market.WorkerAppend(w.Ctx, &o, &s)
	sym.Assert("C04.workerappend-no-error", err == nil)
	wk1, has := w.Market.GetWorker(w.Ctx, workerName(s.Sp))
	sym.Cover("C04.workerappend")
	sym.Assert("C14.workerappend-record", has)
	rate := o.UnitPrice.Amount.MulInt64(int64(s.Size_))
	if had {
		sym.Assert("C14.workerappend-storage", wk1.Storage == wk0.Storage+s.Size_)
		sym.Assert("C14.workerappend-rate", wk1.IncomePerSecond.Amount.Equal(wk0.IncomePerSecond.Amount.Add(rate)))
		// accrued income is settled: what is owed now = what was owed + income of this shard since it was created
		back := rate.MulInt64(w.Height() - int64(s.CreatedAt))
		if wk0.Storage > 0 {
			sym.Assert("C04.workerappend-settles", claimable(wk1, w.Height()).Equal(claimable(wk0, w.Height()).Add(back)))
		}
	} else {
		sym.Assert("C14.workerappend-storage", wk1.Storage == s.Size_)
		sym.Assert("C14.workerappend-rate", wk1.IncomePerSecond.Amount.Equal(rate))
	}
	sym.Assert("C04.workerappend-clock", wk1.LastRewardAt == w.Height())
	sym.Assert("C04.workerappend-no-transfer", w.TransferCount() == nT)
	for _, k := range w.WrittenString(snap, "market", markettypes.WorkerKeyPrefix, "/") {
		sym.Assert("C14.workerappend-frame", k == workerName(s.Sp))
	}
}

// WorkerRelease: settles, lowers rate and bytes by exactly this shard's contribution.
func Ob_C04C14_WorkerRelease() {
	w := NewWorld()
	var o ordertypes.Order
	var s ordertypes.Shard
	sym.Fill("order", &o)
	sym.Fill("shard", &s)
	sym.Assume(InvOrder(o) && InvShard(s))
	wk0, had := w.Market.GetWorker(w.Ctx, workerName(s.Sp))
	sym.Assume(!had || wk0.LastRewardAt <= w.Height())
	snap, nT := w.Snapshot(), w.TransferCount()
	err := w.Market.WorkerRelease(w.Ctx, &o, &s)
	if err != nil {
		sym.Assert("C04.workerrelease-error-only-without-worker", !had)
		sym.Assert("C04.workerrelease-error-writes-nothing", !w.WrittenAny(snap, "market"))
		return
	}
	sym.Cover("C04.workerrelease")
	wk1, has := w.Market.GetWorker(w.Ctx, workerName(s.Sp))
	rate := o.UnitPrice.Amount.MulInt64(int64(s.Size_))
	sym.Assert("C14.workerrelease-record", had && has)
	sym.Assert("C14.workerrelease-storage", wk1.Storage == wk0.Storage-s.Size_)
	sym.Assert("C14.workerrelease-rate", wk1.IncomePerSecond.Amount.Equal(wk0.IncomePerSecond.Amount.Sub(rate)))
	sym.Assert("C04.workerrelease-settles", wk1.Reward.Amount.Equal(claimable(wk0, w.Height())) && wk1.LastRewardAt == w.Height())
	sym.Assert("C04.workerrelease-no-transfer", w.TransferCount() == nT)
	for _, k := range w.WrittenString(snap, "market", markettypes.WorkerKeyPrefix, "/") {
		sym.Assert("C14.workerrelease-frame", k == workerName(s.Sp))
	}
}

// C04/C08 Claim: pays out nothing itself, returns the whole-coin part of what is owed and keeps the fraction.
func Ob_C04_MarketClaim() {
	w := NewWorld()
	sp := sym.String("sp")
	wk0, had := w.Market.GetWorker(w.Ctx, workerName(sp))
	sym.Assume(!had || wk0.LastRewardAt <= w.Height())
	snap, nT := w.Snapshot(), w.TransferCount()
	coin, err := w.Market.Claim(w.Ctx, WorldDenom, sp)
	sym.Assert("C04.claim-no-error", err == nil)
	sym.Cover("C04.claim")
	sym.Assert("C04.claim-no-transfer", w.TransferCount() == nT)
	if !had {
		sym.Assert("C04.claim-nothing-without-worker", coin.IsZero() && !w.WrittenAny(snap, "market"))
		return
	}
	owed := claimable(wk0, w.Height())
	sym.Assert("C04.claim-at-most-owed", sdk.NewDecFromInt(coin.Amount).LTE(owed) && !coin.Amount.IsNegative())
	if !coin.IsZero() {
		wk1, _ := w.Market.GetWorker(w.Ctx, workerName(sp))
		sym.Assert("C04.claim-keeps-fraction", wk1.Reward.Amount.Equal(owed.Sub(sdk.NewDecFromInt(coin.Amount))) && wk1.LastRewardAt == w.Height())
		sym.Assert("C04.claim-whole-coins", coin.Amount.Equal(owed.TruncateInt()))
		sym.Assert("C04.claim-rate-unchanged", wk1.IncomePerSecond.Amount.Equal(wk0.IncomePerSecond.Amount) && wk1.Storage == wk0.Storage)
	}
	for _, k := range w.WrittenString(snap, "market", markettypes.WorkerKeyPrefix, "/") {
		sym.Assert("C04.claim-frame", k == workerName(sp))
	}
}

// C04 T-deposit: Deposit moves exactly Order.Amount from the order escrow to the market escrow.
func Ob_C04_Deposit() {
	w := NewWorld()
	var o ordertypes.Order
	sym.Fill("order", &o)
	sym.Assume(InvOrder(o))
	nT := w.TransferCount()
	err := w.Market.Deposit(w.Ctx, o)
	ts := w.TransfersSince(nT)
	if err != nil {
		sym.Assert("C04.deposit-error-moves-nothing", len(ts) == 0)
		return
	}
	sym.Cover("C04.deposit")
	sym.Assert("C04.deposit-one-transfer", len(ts) == 1)
	if len(ts) == 1 {
		sym.Assert("C04.deposit-exact", ts[0].From == modAddr(ordertypes.ModuleName) && ts[0].To == modAddr(markettypes.ModuleName) &&
			ts[0].Amt.Cmp(o.Amount.Amount.BigInt()) == 0 && ts[0].Denom == o.Amount.Denom)
	}
}
