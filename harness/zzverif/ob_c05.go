//go:build verif

package zzverif

import (
	ordertypes "github.com/SaoNetwork/sao/x/order/types"
	saotypes "github.com/SaoNetwork/sao/x/sao/types"
	"github.com/SaoNetwork/sao/zzverif/sym"
	sdk "github.com/cosmos/cosmos-sdk/types"
)

// C05 / T-cancel: a successful MsgCancel refunds the full amount to the payer and removes the order
// and all of its shards.
func Ob_C05_Cancel() {
	w := NewWorld()
	if sym.Tier() == "quick" {
		sym.SetBound("Order.Shards", 1)
	} else {
		sym.SetBound("Order.Shards", 2)
	}
	var msg saotypes.MsgCancel
	sym.Fill("msg", &msg)
	o, found := w.Order.GetOrder(w.Ctx, msg.OrderId)
	sym.Assume(found)
	nT := w.TransferCount()
	var err error
	// a panic inside a message handler is recovered by baseapp's runTx: the transaction is rejected
	panicked, _ := sym.Catch(func() { _, err = w.SaoMsg.Cancel(sdk.WrapSDKContext(w.Ctx), &msg) })
	if panicked || err != nil {
		return
	}
	sym.Cover("C05.cancel-succeeds")
	sym.Assert("C05.not-completed", o.Status != ordertypes.OrderCompleted)
	_, still := w.Order.GetOrder(w.Ctx, o.Id)
	sym.Assert("C05.order-gone", !still)
	for _, id := range o.Shards {
		_, f := w.Order.GetShard(w.Ctx, id)
		sym.Assert("C05.shard-gone", !f)
	}
	// exactly one transfer out of the order escrow, of the full amount
	refunds := 0
	for _, t := range w.TransfersSince(nT) {
		if t.From == modAddr(ordertypes.ModuleName) {
			refunds++
			sym.Assert("C05.refund-amount", t.Amt.Cmp(o.Amount.Amount.BigInt()) == 0 && t.Denom == o.Amount.Denom)
		}
	}
	sym.Assert("C05.refund-once", refunds == 1)
}
