//go:build verif

package zzverif

import (
	nodemodule "github.com/SaoNetwork/sao/x/node"
	nodetypes "github.com/SaoNetwork/sao/x/node/types"
	"github.com/SaoNetwork/sao/zzverif/sym"
	sdk "github.com/cosmos/cosmos-sdk/types"
)

// concreteNodeParams: the quick tier fixes the parameter set (products with the pool stay linear);
// the reward, baseline and periods are the values of the repository's local-net config.
func concreteNodeParams(w *World, reward, baseline int64) nodetypes.Params {
	p := nodetypes.DefaultParams()
	p.BlockReward = sdk.NewInt64Coin(WorldDenom, reward)
	p.Baseline = sdk.NewInt64Coin(WorldDenom, baseline)
	w.Node.SetParams(w.Ctx, p)
	return p
}

// C08 / T-mint: BeginBlocker is the only minter; per block it mints at most BlockReward >> age, nothing
// while nothing is pledged, and the cumulative counter moves by exactly the minted amount.
func Ob_C08C02_BeginBlocker_Mint() {
	w := NewWorld()
	params := concreteNodeParams(w, 1000000, 1000000000000)
	pool0, found := w.Node.GetPool(w.Ctx)
	// the halving age is a float logarithm of cap/(cap-TotalReward): the cumulative counter is taken from
	// a small table (ages 0, 0, 2) so that the schedule is computed, not abstracted
	tr := []int64{0, 100000000000000, 300000000000000}
	k := sym.Int("totalRewardCase")
	sym.Assume(k >= 0 && k <= 2)
	k = sym.ConcreteInt(k, 0, 2)
	if found {
		pool0.TotalReward = sdk.NewInt64Coin(WorldDenom, tr[k])
		w.Node.SetPool(w.Ctx, pool0)
	}
	sym.Assume(!found || (pool0.TotalStorage > 0 && pool0.TotalPledged.Amount.LT(sdk.NewInt(1<<60))))
	nT := w.TransferCount()
	nodemodule.BeginBlocker(w.Ctx, w.Node)
	sym.Cover("C08.beginblocker-returns")
	minted := sdk.ZeroInt()
	for _, t := range w.TransfersSince(nT) {
		sym.Assert("C08.bb-only-mints-to-node", t.From == "" && t.To == modAddr(nodetypes.ModuleName) && t.Denom == WorldDenom)
		minted = minted.Add(newInt(t.Amt))
	}
	if !found {
		sym.Assert("C08.bb-no-pool-no-mint", minted.IsZero())
		return
	}
	pool1, _ := w.Node.GetPool(w.Ctx)
	sym.Assert("C08.bb-counter-equals-minted", pool1.TotalReward.Amount.Sub(pool0.TotalReward.Amount).Equal(minted))
	sym.Assert("C08.bb-mint-at-most-blockreward", minted.LTE(params.BlockReward.Amount) && !minted.IsNegative())
	if pool0.TotalPledged.IsZero() {
		sym.Assert("C08.bb-nothing-pledged-nothing-minted", minted.IsZero())
	}
	if !minted.IsZero() {
		sym.Cover("C08.beginblocker-mints")
		// pro-rata accumulator: every pledged byte earns minted / TotalStorage (18-decimal truncation)
		inc := pool1.AccRewardPerByte.Amount.Sub(pool0.AccRewardPerByte.Amount)
		sym.Assert("C08.bb-acc-per-byte", inc.Equal(sdk.NewDecFromInt(minted).QuoInt64(pool0.TotalStorage)))
		// what all providers together can claim grows by at most what was minted
		sym.Assert("C08.bb-shares-at-most-minted", inc.MulInt64(pool0.TotalStorage).LTE(sdk.NewDecFromInt(minted)))
	}
	sym.Assert("C08.bb-blockcount", pool1.RewardedBlockCount == pool0.RewardedBlockCount+1 || minted.IsZero())
}
