//go:build verif

package zzverif

import (
	modelmodule "github.com/SaoNetwork/sao/x/model"
	"github.com/SaoNetwork/sao/zzverif/sym"
)

// C02 / P-blockers: the model end-blocker returns normally from every pre-state that satisfies the record
// invariants (baseapp does not recover panics outside DeliverTx). The other blockers are covered by
// Ob_C02C19_NodeEndBlock, Ob_C08C02_BeginBlocker_Mint and the HandleTimeoutOrder / HandleExpiredShard obligations
// (an uncaught panic there is a violation of label no-panic).
func Ob_C02_ModelEndBlocker() {
	w := NewWorld()
	modelmodule.EndBlocker(w.Ctx, w.Model)
	sym.Cover("C02.model-endblocker-returns")
}
