//go:build verif

package zzverif

import (
	modelmodule "github.com/SaoNetwork/sao/x/model"
	nodemodule "github.com/SaoNetwork/sao/x/node"
	saomodule "github.com/SaoNetwork/sao/x/sao"
	"github.com/SaoNetwork/sao/zzverif/sym"
)

// C02 / P-blockers: begin/end blockers return normally from every pre-state that satisfies the
// record invariants (baseapp does not recover panics outside DeliverTx).

func Ob_C02_ModelEndBlocker() {
	w := NewWorld()
	modelmodule.EndBlocker(w.Ctx, w.Model)
	sym.Cover("C02.model-endblocker-returns")
}

func Ob_C02_SaoEndBlocker() {
	w := NewWorld()
	saomodule.EndBlocker(w.Ctx, w.Sao)
	sym.Cover("C02.sao-endblocker-returns")
}

func Ob_C02_NodeEndBlock() {
	w := NewWorld()
	nodemodule.EndBlock(w.Ctx, w.Node)
	sym.Cover("C02.node-endblock-returns")
}

func Ob_C02_NodeBeginBlocker() {
	w := NewWorld()
	nodemodule.BeginBlocker(w.Ctx, w.Node)
	sym.Cover("C02.node-beginblocker-returns")
}
