//go:build verif

package zzverif

import (
	modeltypes "github.com/SaoNetwork/sao/x/model/types"
	ordertypes "github.com/SaoNetwork/sao/x/order/types"
	saotypes "github.com/SaoNetwork/sao/x/sao/types"
	"github.com/SaoNetwork/sao/zzverif/sym"
	sdk "github.com/cosmos/cosmos-sdk/types"
)

// C04/C11/C13/C14 migration hand-over: when the new provider reports the migrated shard as stored, it takes
// over exactly the remaining paid term (end height unchanged), the old shard disappears and is no longer
// listed, the new one is listed, the old provider's collateral and income stop and the new provider's start.
func Ob_C04C11C13C14_Complete_Migration() {
	w := NewWorld()
	sym.SetBound("Order.Shards", 2)
	sym.SetBound("Shard.RenewInfos", 0)
	sym.SetBound("Metadata.Orders", 0)
	var msg saotypes.MsgComplete
	sym.Fill("msg", &msg)
	sym.Assume(msg.Creator == msg.Provider)
	o, found := w.Order.GetOrder(w.Ctx, msg.OrderId)
	sym.Assume(found && o.Status == ordertypes.OrderCompleted && len(o.Shards) == 2 && o.Shards[0] != o.Shards[1] && o.Id == msg.OrderId)
	old, fo := w.Order.GetShard(w.Ctx, o.Shards[0])
	ns, fn := w.Order.GetShard(w.Ctx, o.Shards[1])
	sym.Assume(fo && fn && old.Status == ordertypes.ShardCompleted && old.OrderId == o.Id && old.Id == o.Shards[0] &&
		ns.Status == ordertypes.ShardMigrating && ns.Sp == msg.Provider && ns.From == old.Sp && ns.Sp != old.Sp && ns.Id == o.Shards[1] && ns.Size_ == old.Size_)
	sym.Assume(uint64(w.Height()) >= old.CreatedAt && uint64(w.Height()) < old.CreatedAt+old.Duration)
	m, fm := w.Model.GetMetadata(w.Ctx, o.DataId)
	sym.Assume(fm && m.Status == modeltypes.MetaComplete)
	// live-shard invariants of the old provider and a solvent node escrow
	pa, fpa := w.Node.GetPledge(w.Ctx, old.Sp)
	wa, fwa := w.Market.GetWorker(w.Ctx, workerName(old.Sp))
	sym.Assume(fpa && fwa && pa.TotalShardPledged.Amount.GTE(old.Pledge.Amount) && pa.UsedStorage >= int64(old.Size_) && wa.Storage >= old.Size_ && wa.LastRewardAt <= w.Height())
	sym.Assume(w.Bal(modAddr("node"), WorldDenom).Cmp(old.Pledge.Amount.BigInt()) >= 0)
	_, hasDebtA := w.Node.GetPledgeDebt(w.Ctx, old.Sp)
	sym.Assume(!hasDebtA)
	wb0, hadWb := w.Market.GetWorker(w.Ctx, workerName(ns.Sp))
	sym.Assume(!hadWb || wb0.LastRewardAt <= w.Height())
	var err error
	panicked, _ := sym.Catch(func() { _, err = w.SaoMsg.Complete(sdk.WrapSDKContext(w.Ctx), &msg) })
	if panicked || err != nil {
		return
	}
	sym.Cover("C04.migration-completes")
	n1, f1 := w.Order.GetShard(w.Ctx, ns.Id)
	sym.Assert("C11.migration-keeps-paid-end", f1 && n1.Status == ordertypes.ShardCompleted && n1.CreatedAt == uint64(w.Height()) &&
		n1.CreatedAt+n1.Duration == old.CreatedAt+old.Duration && n1.OrderId == old.OrderId)
	_, oldStill := w.Order.GetShard(w.Ctx, old.Id)
	o1, _ := w.Order.GetOrder(w.Ctx, o.Id)
	sym.Assert("C13.migration-relists", !oldStill && !inListU64(old.Id, o1.Shards) && inListU64(ns.Id, o1.Shards))
	e, he := w.Sao.GetExpiredShard(w.Ctx, old.CreatedAt+old.Duration)
	sym.Assert("C11.migration-release-scheduled-at-old-end", he && inListU64(ns.Id, e.ShardList))
	wa1, _ := w.Market.GetWorker(w.Ctx, workerName(old.Sp))
	wb1, hb := w.Market.GetWorker(w.Ctx, workerName(ns.Sp))
	rate := o.UnitPrice.Amount.MulInt64(int64(old.Size_))
	sym.Assert("C14.migration-old-worker-released", wa1.Storage == wa.Storage-old.Size_ && wa1.IncomePerSecond.Amount.Equal(wa.IncomePerSecond.Amount.Sub(rate)))
	if hadWb {
		sym.Assert("C14.migration-new-worker-appended", hb && wb1.Storage == wb0.Storage+old.Size_ && wb1.IncomePerSecond.Amount.Equal(wb0.IncomePerSecond.Amount.Add(rate)))
	} else {
		sym.Assert("C14.migration-new-worker-appended", hb && wb1.Storage == old.Size_ && wb1.IncomePerSecond.Amount.Equal(rate))
	}
	// no back-pay to the new provider: it starts earning now
	if !hadWb {
		sym.Assert("C04.migration-no-backpay", wb1.Reward.Amount.IsZero())
	}
	pa1, _ := w.Node.GetPledge(w.Ctx, old.Sp)
	sym.Assert("C14.migration-old-provider-released", pa1.UsedStorage == pa.UsedStorage-int64(old.Size_) && pa1.TotalShardPledged.Amount.Equal(pa.TotalShardPledged.Amount.Sub(old.Pledge.Amount)))
}
