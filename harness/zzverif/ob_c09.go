//go:build verif

package zzverif

import (
	"strings"

	modeltypes "github.com/SaoNetwork/sao/x/model/types"
	saotypes "github.com/SaoNetwork/sao/x/sao/types"
	"github.com/SaoNetwork/sao/zzverif/sym"
	sdk "github.com/cosmos/cosmos-sdk/types"
)

// verifiedByOwnerOrGrantee: some request on this path carried a valid signature of the model's owner
// (or, when allowRW, of a read-write grantee).
func verifiedByOwnerOrGrantee(m modeltypes.Metadata, allowRW bool) bool {
	ok := sym.VerifiedBy(m.Owner)
	if allowRW {
		for _, d := range m.ReadwriteDids {
			ok = sym.Or(ok, sym.VerifiedBy(d))
		}
	}
	return ok
}

func metaBefore(w *World, snap int, dataId string) (m modeltypes.Metadata, found bool) {
	w.At(snap, func() { m, found = w.Model.GetMetadata(w.Ctx, dataId) })
	return
}

// C09 / F-unauth-store: an existing model changes through MsgStore only if the request carries a valid
// signature of the owner or of a read-write grantee.
func Ob_C09_StoreAuth() {
	w := NewWorld()
	var msg saotypes.MsgStore
	sym.Fill("msg", &msg)
	sym.Assume(msg.Proposal.Size_ < 1<<20 && msg.Proposal.Replica < 8 && msg.Proposal.Duration < 1<<32)
	m0, found0 := w.Model.GetMetadata(w.Ctx, msg.Proposal.DataId)
	sym.Assume(found0) // the protected object: an existing model
	if sym.Tier() == "quick" {
		// keep provider selection out of the window: the request is relayed by an account bound to the owner
		sym.Assume(w.Did.CreatorIsBoundToDid(w.Ctx, msg.Creator, msg.Proposal.Owner) == nil && msg.Proposal.PaymentDid == "")
	}
	dataId, commitId := msg.Proposal.DataId, msg.Proposal.CommitId
	var err error
	panicked, _ := sym.Catch(func() { _, err = w.SaoMsg.Store(sdk.WrapSDKContext(w.Ctx), &msg) })
	if panicked || err != nil {
		if err != nil {
			sym.Trace("store-err", err)
		}
		return
	}
	sym.Cover("C09.store-succeeds")
	m1, found1 := w.Model.GetMetadata(w.Ctx, dataId)
	changed := !found1 || !sym.DeepEq(&m0, &m1)
	if changed {
		// known class: a commit id that embeds the data id skips the permission branch
		sym.AssertKF("C09.store-auth", verifiedByOwnerOrGrantee(m0, true), sym.KF("KF-C09-1", strings.Contains(commitId, dataId)))
	}
}

// C09 / F-unauth-terminate
func Ob_C09_TerminateAuth() {
	w := NewWorld()
	var msg saotypes.MsgTerminate
	sym.Fill("msg", &msg)
	m0, found0 := w.Model.GetMetadata(w.Ctx, msg.Proposal.DataId)
	sym.Assume(found0)
	if sym.Tier() == "quick" {
		sym.SetBound("Metadata.Orders", 0) // authorisation is decided before the settlement loop
	}
	dataId := msg.Proposal.DataId
	var err error
	panicked, _ := sym.Catch(func() { _, err = w.SaoMsg.Terminate(sdk.WrapSDKContext(w.Ctx), &msg) })
	if panicked || err != nil {
		return
	}
	sym.Cover("C09.terminate-succeeds")
	m1, found1 := w.Model.GetMetadata(w.Ctx, dataId)
	if !found1 || !sym.DeepEq(&m0, &m1) {
		sym.Assert("C09.terminate-auth", verifiedByOwnerOrGrantee(m0, true))
	}
}

// C09 / F-unauth-permission: permissions change only with the owner's signature.
func Ob_C09_PermissionAuth() {
	w := NewWorld()
	var msg saotypes.MsgUpdataPermission
	sym.Fill("msg", &msg)
	m0, found0 := w.Model.GetMetadata(w.Ctx, msg.Proposal.DataId)
	sym.Assume(found0)
	if sym.Tier() == "quick" {
		sym.Assume(len(msg.Proposal.ReadonlyDids) == 0 && len(msg.Proposal.ReadwriteDids) <= 1)
	}
	dataId := msg.Proposal.DataId
	var err error
	panicked, _ := sym.Catch(func() { _, err = w.SaoMsg.UpdataPermission(sdk.WrapSDKContext(w.Ctx), &msg) })
	if panicked || err != nil {
		return
	}
	sym.Cover("C09.permission-succeeds")
	m1, found1 := w.Model.GetMetadata(w.Ctx, dataId)
	if !found1 || !sym.DeepEq(&m0, &m1) {
		sym.Assert("C09.permission-auth", verifiedByOwnerOrGrantee(m0, false))
	}
}

// C09 / F-unauth-renew: a model's lifetime / order history changes through MsgRenew only with the owner's signature.
func Ob_C09_RenewAuth() {
	w := NewWorld()
	var msg saotypes.MsgRenew
	sym.Fill("msg", &msg)
	sym.Assume(len(msg.Proposal.Data) == 1)
	dataId := msg.Proposal.Data[0]
	m0, found0 := w.Model.GetMetadata(w.Ctx, dataId)
	sym.Assume(found0)
	if sym.Tier() == "quick" {
		// ownership is decided before the per-shard pledge loop: keep the renewed order without shards
		o, f := w.Order.GetOrder(w.Ctx, m0.OrderId)
		sym.Assume(!f || len(o.Shards) == 0)
		sym.SetBound("Metadata.Orders", 0)
	}
	var err error
	panicked, _ := sym.Catch(func() { _, err = w.SaoMsg.Renew(sdk.WrapSDKContext(w.Ctx), &msg) })
	if panicked || err != nil {
		return
	}
	sym.Cover("C09.renew-returns")
	m1, found1 := w.Model.GetMetadata(w.Ctx, dataId)
	if !found1 || !sym.DeepEq(&m0, &m1) {
		sym.Assert("C09.renew-auth", verifiedByOwnerOrGrantee(m0, false))
	}
}
