//go:build verif && !gosym

package zzverif

import (
	"fmt"
	"os"
	"runtime/debug"
	"strings"
	"testing"
	"time"

	"github.com/SaoNetwork/sao/zzverif/sym"
)

// TestReplay re-executes one counterexample natively. Output protocol (one line):
//
//	REPLAY <obligation> label=<l> result=<reproduced|not-reproduced|assume-failed|hang|panic:<msg>>
func TestReplay(t *testing.T) {
	path := os.Getenv("VERIF_CASE")
	if path == "" {
		t.Skip("no VERIF_CASE")
	}
	if err := sym.Load(path); err != nil {
		t.Fatal(err)
	}
	c := sym.Current
	fn, ok := Registry[c.Obligation]
	if !ok {
		t.Fatalf("unknown obligation %s", c.Obligation)
	}
	// a counterexample that depends on the runtime's map iteration order is retried: the order is random per run
	tries := 1
	for _, e := range c.Env {
		if strings.HasPrefix(e, "maporder@") {
			tries = 80
		}
	}
	var outcome, result string
	for try := 0; try < tries; try++ {
		if try > 0 {
			if err := sym.Load(path); err != nil {
				t.Fatal(err)
			}
			c = sym.Current
		}
		outcome, result = replayOnce(c, fn)
		if result == "reproduced" {
			break
		}
	}
	fmt.Printf("REPLAY %s label=%s kind=%s result=%s outcome=%q failed=%v kfhits=%v\n", c.Obligation, c.Label, c.Kind, result, outcome, sym.FailedAsserts, sym.KFHits)
}

func replayOnce(c *sym.Case, fn func()) (string, string) {
	done := make(chan string, 1)
	go func() {
		defer func() {
			if r := recover(); r != nil {
				if _, ok := r.(sym.AssumeFailure); ok {
					done <- "assume-failed"
					return
				}
				if os.Getenv("VERIF_DEBUG") != "" {
					fmt.Println(string(debug.Stack()))
				}
				done <- fmt.Sprintf("panic:%v", r)
				return
			}
		}()
		fn()
		done <- "returned"
	}()
	var outcome string
	select {
	case outcome = <-done:
	case <-time.After(20 * time.Second):
		outcome = "hang"
	}
	result := "not-reproduced"
	switch c.Kind {
	case "assert":
		for _, l := range sym.FailedAsserts {
			if l == c.Label {
				result = "reproduced"
			}
		}
		if outcome == "assume-failed" {
			result = "assume-failed"
		}
	case "panic":
		if len(outcome) > 6 && outcome[:6] == "panic:" {
			result = "reproduced"
		} else if outcome == "assume-failed" {
			result = "assume-failed"
		}
	case "unwind":
		if outcome == "hang" {
			result = "reproduced"
		} else if outcome == "assume-failed" {
			result = "assume-failed"
		}
	}
	return outcome, result
}

// TestSelf runs the translator self-tests (Ob_S00_*) natively: their asserts state what the real Go functions
// return, so a wrong expectation fails here and a wrong encoding fails in the symbolic run.
func TestSelf(t *testing.T) {
	if os.Getenv("VERIF_SELF") == "" {
		t.Skip("no VERIF_SELF")
	}
	bad := 0
	for name, fn := range Registry {
		if !strings.HasPrefix(name, "Ob_S00_") {
			continue
		}
		sym.LoadEmpty()
		func() {
			defer func() {
				if r := recover(); r != nil {
					fmt.Printf("SELF %s panicked: %v\n", name, r)
					bad++
				}
			}()
			fn()
		}()
		fmt.Printf("SELF %s passed=%d failed=%v\n", name, len(sym.PassedAsserts), sym.FailedAsserts)
		bad += len(sym.FailedAsserts)
	}
	if bad > 0 {
		t.Fatalf("%d native self-test failures", bad)
	}
}
