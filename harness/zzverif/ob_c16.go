//go:build verif

package zzverif

import (
	ordertypes "github.com/SaoNetwork/sao/x/order/types"
	"github.com/SaoNetwork/sao/zzverif/sym"
)

// C16 / T-append: AppendOrder hands out id = counter, bumps the counter by one and writes no other id.
func Ob_C16_AppendOrder() {
	w := NewWorld()
	var o ordertypes.Order
	sym.Fill("order", &o)
	cnt := w.Order.GetOrderCount(w.Ctx)
	sym.Assume(cnt < 1<<62)
	snap := w.Snapshot()
	id := w.Order.AppendOrder(w.Ctx, o)
	sym.Cover("C16.append-order")
	sym.Assert("C16.order-id-is-counter", id == cnt)
	sym.Assert("C16.order-counter-bumped", w.Order.GetOrderCount(w.Ctx) == cnt+1)
	got, found := w.Order.GetOrder(w.Ctx, id)
	sym.Assert("C16.order-stored-under-id", found && got.Id == id && got.Creator == o.Creator)
	for _, wid := range w.WrittenUint64(snap, "order", ordertypes.OrderKey) {
		sym.Assert("C16.order-no-other-id-written", wid == id)
	}
	// an id below the counter is never handed out again: the fresh id is not below the old counter
	sym.Assert("C16.order-id-fresh", id >= cnt)
}

func Ob_C16_AppendShard() {
	w := NewWorld()
	var s ordertypes.Shard
	sym.Fill("shard", &s)
	cnt := w.Order.GetShardCount(w.Ctx)
	sym.Assume(cnt < 1<<62)
	snap := w.Snapshot()
	id := w.Order.AppendShard(w.Ctx, s)
	sym.Cover("C16.append-shard")
	sym.Assert("C16.shard-id-is-counter", id == cnt)
	sym.Assert("C16.shard-counter-bumped", w.Order.GetShardCount(w.Ctx) == cnt+1)
	got, found := w.Order.GetShard(w.Ctx, id)
	sym.Assert("C16.shard-stored-under-id", found && got.Id == id && got.Sp == s.Sp)
	for _, wid := range w.WrittenUint64(snap, "order", ordertypes.ShardKey) {
		sym.Assert("C16.shard-no-other-id-written", wid == id)
	}
}
