//go:build verif && !gosym

// Native implementation of the harness API: replays one solver model (case file) against the real code.
package sym

import (
	"encoding/json"
	"fmt"
	"math/big"
	"os"
	"reflect"
	"strconv"
	"strings"
	"time"

	"github.com/gogo/protobuf/jsonpb"
	"github.com/gogo/protobuf/proto"

	sdk "github.com/cosmos/cosmos-sdk/types"
)

type Handle struct{ _ int }

type KFClass struct {
	ID   string
	Cond bool
}

func KF(id string, cond bool) KFClass { return KFClass{ID: id, Cond: cond} }

type StoreCase struct {
	Store   string          `json:"store"`
	KeyHex  string          `json:"key_hex"`
	Present bool            `json:"present"`
	Type    string          `json:"type"`
	JSON    json.RawMessage `json:"json"`
	RawHex  string          `json:"raw_hex"`
	IsRaw   bool            `json:"is_raw"`
}

type BankCase struct {
	Addr, Denom, Amount string
}

type Case struct {
	Obligation string                     `json:"obligation"`
	Label      string                     `json:"label"`
	Kind       string                     `json:"kind"`
	Site       string                     `json:"site"`
	Nondet     map[string]json.RawMessage `json:"nondet"`
	NondetSeq  []NondetItem               `json:"nondet_seq"`
	Stores     []StoreCase                `json:"stores"`
	Params     map[string]json.RawMessage `json:"params"`
	Bank       []BankCase                 `json:"bank"`
	Env        []string                   `json:"env"`
	EnvInts    []string                   `json:"env_ints"`
	Globals    map[string]string          `json:"globals"`
	SigResults []bool                     `json:"sig_results"`
}

type NondetItem struct {
	Name string          `json:"name"`
	JSON json.RawMessage `json:"json"`
}

var Current *Case
var pos int
var envPos int

// outcome of the replay
var (
	FailedAsserts []string
	PassedAsserts []string
	KFHits        []string
	Covers        []string
	AssumeFailed  []string
)

type AssumeFailure struct{ N int }

func Load(path string) error {
	b, err := os.ReadFile(path)
	if err != nil {
		return err
	}
	c := &Case{}
	if err := json.Unmarshal(b, c); err != nil {
		return err
	}
	Current = c
	pos, envPos, sigPos = 0, 0, 0
	verifiedDids = nil
	FailedAsserts, PassedAsserts, KFHits, Covers, AssumeFailed = nil, nil, nil, nil, nil
	return nil
}

// LoadEmpty installs a case without inputs (translator self-tests take theirs from sym.Opaque*).
func LoadEmpty() {
	Current = &Case{}
	pos, envPos, sigPos = 0, 0, 0
	verifiedDids = nil
	FailedAsserts, PassedAsserts, KFHits, Covers, AssumeFailed = nil, nil, nil, nil, nil
}

func next(name string) json.RawMessage {
	if Current == nil {
		panic("sym: no case loaded")
	}
	// nondets are consumed in program order; names are checked when they match
	for pos < len(Current.NondetSeq) {
		it := Current.NondetSeq[pos]
		pos++
		if it.Name == name {
			return it.JSON
		}
		// a nondet the native run does not reach at this point: skip (engine-only helper values)
	}
	return nil
}

func asString(r json.RawMessage) string {
	if r == nil {
		return ""
	}
	var s string
	if err := json.Unmarshal(r, &s); err == nil {
		return s
	}
	return string(r)
}

func asInt(r json.RawMessage) *big.Int {
	v, ok := new(big.Int).SetString(asString(r), 10)
	if !ok {
		return big.NewInt(0)
	}
	return v
}

func Bool(name string) bool {
	r := next(name)
	var b bool
	json.Unmarshal(r, &b)
	return b
}
func Int64(name string) int64   { return asInt(next(name)).Int64() }
func Uint64(name string) uint64 { return asInt(next(name)).Uint64() }
func Uint32(name string) uint32 { return uint32(asInt(next(name)).Uint64()) }
func Int32(name string) int32   { return int32(asInt(next(name)).Int64()) }
func Uint8(name string) uint8   { return uint8(asInt(next(name)).Uint64()) }
func Int(name string) int       { return int(asInt(next(name)).Int64()) }
func String(name string) string { return asString(next(name)) }

// Opaque*: natively the value itself (see sym_gosym.go)
func OpaqueString(v string) string { return v }
func OpaqueInt64(v int64) int64    { return v }
func OpaqueUint64(v uint64) uint64 { return v }
func Float32(name string) float32 {
	f, _ := strconv.ParseFloat(asString(next(name)), 32)
	return float32(f)
}
func BigInt(name string) *big.Int    { return asInt(next(name)) }
func NonNegBig(name string) *big.Int { return asInt(next(name)) }
func DecNonNeg(name string) sdk.Dec {
	d, err := sdk.NewDecFromStr(asString(next(name)))
	if err != nil {
		return sdk.ZeroDec()
	}
	return d
}

func Fill(name string, ptr interface{}) {
	r := next(name)
	if r == nil {
		return
	}
	if pm, ok := ptr.(proto.Message); ok {
		if err := jsonpb.UnmarshalString(string(r), pm); err != nil {
			panic(fmt.Sprintf("sym.Fill(%s): %v: %s", name, err, string(r)))
		}
		return
	}
	if err := json.Unmarshal(r, ptr); err != nil {
		panic(fmt.Sprintf("sym.Fill(%s): %v", name, err))
	}
}

func Assume(c bool) {
	if !c {
		AssumeFailed = append(AssumeFailed, fmt.Sprintf("assume#%d", len(AssumeFailed)))
		panic(AssumeFailure{})
	}
}

func Assert(label string, c bool) {
	if c {
		PassedAsserts = append(PassedAsserts, label)
	} else {
		FailedAsserts = append(FailedAsserts, label)
	}
}

func AssertKF(label string, c bool, kfs ...KFClass) {
	Assert(label, c)
	if !c {
		for _, k := range kfs {
			if k.Cond {
				KFHits = append(KFHits, k.ID)
			}
		}
	}
}

func Cover(label string)               { Covers = append(Covers, label) }
func Symbolic() bool                   { return false }
func Implies(a, b bool) bool           { return !a || b }
func StrEq(a, b string) bool           { return a == b }
func IteInt64(c bool, a, b int64) int64 {
	if c {
		return a
	}
	return b
}
func And(cs ...bool) bool {
	for _, c := range cs {
		if !c {
			return false
		}
	}
	return true
}
func Or(cs ...bool) bool {
	for _, c := range cs {
		if c {
			return true
		}
	}
	return false
}
func ConcreteInt(x, lo, hi int) int { return x }

func DeclareKeyed(store, prefix string, proto interface{}, keyFn interface{}) {}
func DeclareRaw(store, prefix string, n int)                                  {}
func DeclareRawString(store, prefix string)                                   {}
func DeclareInv(proto interface{}, pred interface{})                          {}
func CheckInvOnWrite(on bool)                                                 {}
func FixField(field, value string)                                            {}
func SetBound(nameSuffix string, n int)                                       {}
func SetEnumBound(store, prefix string, n int)                                {}
func Note(s string)                                                           {}
func Tier() string                                                            { return os.Getenv("VERIF_TIER") }
func Time(unix int64) time.Time                                               { return time.Unix(unix, 0).UTC() }

// EnvInt64 replays recorded environment values (clock readings) in order.
func EnvInt64(name string) int64 {
	if Current != nil && envPos < len(Current.EnvInts) {
		v, _ := strconv.ParseInt(Current.EnvInts[envPos], 10, 64)
		envPos++
		return v
	}
	return 0
}

// Catch runs f and reports whether it panicked (the shape of baseapp's runTx recovery).
func Catch(f func()) (panicked bool, kind string) {
	defer func() {
		if r := recover(); r != nil {
			if af, ok := r.(AssumeFailure); ok {
				panic(af)
			}
			panicked = true
			kind = fmt.Sprint(r)
		}
	}()
	f()
	return false, ""
}
func ExactMul(on bool) {}

// ---- signature oracle for native replay: outcomes of the signature checks in call order
var SigResults []bool
var sigPos int
var verifiedDids []string

func NextSigOK(did string) bool {
	ok := false
	if Current != nil && sigPos < len(Current.SigResults) {
		ok = Current.SigResults[sigPos]
	}
	sigPos++
	if ok {
		verifiedDids = append(verifiedDids, did)
	}
	return ok
}

// Verified / VerifiedBy: natively a verification is recorded only for the DID the replay oracle accepted;
// the payload is the message the handler was called with.
func Verified(owner string, msgPtr interface{}) bool { return VerifiedBy(owner) }
func VerifiedBy(did string) bool {
	for _, d := range verifiedDids {
		if d == did {
			return true
		}
	}
	return false
}

func DeepEq(a, b interface{}) bool {
	pa, oka := a.(proto.Message)
	pb, okb := b.(proto.Message)
	if oka && okb {
		return proto.Equal(pa, pb)
	}
	return reflect.DeepEqual(a, b)
}
func Trace(label string, v interface{}) {}
func StrContains(a, b string) bool { return strings.Contains(a, b) }

// NextClock hands the recorded clock readings (environment values of the model) to the replay clock stub.
func NextClock() (int64, bool) {
	if Current != nil && envPos < len(Current.EnvInts) {
		v, _ := strconv.ParseInt(Current.EnvInts[envPos], 10, 64)
		envPos++
		return v, true
	}
	return 0, false
}
func DeclareEmptyStore(name string) {}
