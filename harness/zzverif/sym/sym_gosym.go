//go:build verif && gosym

// Package sym is the harness API. In this build every function is a placeholder that the
// gosym engine intercepts by name; the native build (sym_native.go) replays a solver model.
package sym

import (
	"math/big"
	"time"

	sdk "github.com/cosmos/cosmos-sdk/types"
	paramtypes "github.com/cosmos/cosmos-sdk/x/params/types"
)

// Handle is the dynamic type tag of engine objects (stores, iterators).
type Handle struct{ _ int }

type KFClass struct {
	ID   string
	Cond bool
}

func KF(id string, cond bool) KFClass { return KFClass{ID: id, Cond: cond} }

func Bool(name string) bool       { return false }
func Int64(name string) int64     { return 0 }
func Uint64(name string) uint64   { return 0 }
func Uint32(name string) uint32   { return 0 }
func Int32(name string) int32     { return 0 }
func Uint8(name string) uint8     { return 0 }
func Int(name string) int         { return 0 }
func String(name string) string   { return "" }
func Float32(name string) float32 { return 0 }
func BigInt(name string) *big.Int { return nil }

func Fill(name string, ptr interface{}) {}

func Assume(c bool)                                   {}
func Assert(label string, c bool)                     {}
func AssertKF(label string, c bool, kfs ...KFClass)   {}
func Cover(label string)                              {}
func Symbolic() bool                                  { return true }
func And(cs ...bool) bool                             { return false }
func Or(cs ...bool) bool                              { return false }
func Implies(a, b bool) bool                          { return false }
func StrEq(a, b string) bool                          { return false }
func IteInt64(c bool, a, b int64) int64               { return 0 }
func Snapshot() int                                   { return 0 }
func At(snap int, f func())                           {}
func WrittenUint64(snap int, store, prefix string) []uint64 { return nil }
func WrittenString(snap int, store, prefix, suffix string) []string { return nil }
func WrittenAny(snap int, store string) bool          { return false }
func WrittenOutside(snap int, store string, allowed ...string) bool { return false }
func DeclareKeyed(store, prefix string, proto interface{}, keyFn interface{}) {}
func DeclareRaw(store, prefix string, n int)          {}
func SetEnumBound(store, prefix string, n int)        {}
func Time(unix int64) time.Time                       { return time.Time{} }
func EnvInt64(name string) int64                      { return 0 }
func Tier() string                                    { return "" }
func Catch(f func()) (bool, string)                   { return false, "" }
func Note(s string)                                   {}
func HavocGlobal(pkg, name, hint string)              {}
func GlobalBig(pkg, name string) (*big.Int, bool)     { return nil, false }
func Subspace(name string, proto paramtypes.ParamSet) paramtypes.Subspace { return paramtypes.Subspace{} }
func ConcreteInt(x, lo, hi int) int { return x }
func InitBalance(addr, denom string) *big.Int { return nil }
func NonNegBig(name string) *big.Int          { return nil }
func ModuleRegistered(name string) bool       { return false }
func ModuleHasPerm(name, perm string) bool    { return false }
func BlockedAddr(addr string) bool            { return false }
func DeclareRawString(store, prefix string)   {}
func DecNonNeg(name string) sdk.Dec { return sdk.Dec{} }
func DeclareInv(proto interface{}, pred interface{}) {}
func CheckInvOnWrite(on bool)                         {}
func FixField(field, value string)                    {}
func SetBound(nameSuffix string, n int)               {}
func ExactMul(on bool) {}
func Verified(owner string, msgPtr interface{}) bool { return false }
func VerifiedBy(did string) bool                     { return false }
func DeepEq(a, b interface{}) bool { return false }
func Trace(label string, v interface{}) {}
func StrContains(a, b string) bool { return false }
func Rollback(snap int) {}
func DeclareEmptyStore(name string) {}

// Opaque*: the value itself, handed to the engine as a variable constrained to it (no constant folding):
// used by the translator self-tests (S00) to push concrete inputs through the symbolic encodings.
func OpaqueString(v string) string { return v }
func OpaqueInt64(v int64) int64    { return v }
func OpaqueUint64(v uint64) uint64 { return v }
