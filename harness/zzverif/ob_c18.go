//go:build verif

package zzverif

import (
	marketmodule "github.com/SaoNetwork/sao/x/market"
	modelmodule "github.com/SaoNetwork/sao/x/model"
	nodemodule "github.com/SaoNetwork/sao/x/node"
	nodetypes "github.com/SaoNetwork/sao/x/node/types"
	ordermodule "github.com/SaoNetwork/sao/x/order"
	saomodule "github.com/SaoNetwork/sao/x/sao"
	"github.com/SaoNetwork/sao/zzverif/sym"
)

// C18: export -> Validate -> import into an empty twin reproduces the module's observable state
// (every record the module serves), for every state within the enumeration bounds.

func Ob_C18_Roundtrip_Order() {
	w := NewWorld()
	sym.SetEnumBound("order", "Order/value/", 2)
	sym.SetEnumBound("order", "Shard/value/", 2)
	gs := ordermodule.ExportGenesis(w.Ctx, w.Order)
	sym.Cover("C18.order-exported")
	t := NewEmptyTwin(w)
	ordermodule.InitGenesis(t.Ctx, t.Order, *gs)
	o1, o2 := w.Order.GetAllOrder(w.Ctx), t.Order.GetAllOrder(t.Ctx)
	s1, s2 := w.Order.GetAllShard(w.Ctx), t.Order.GetAllShard(t.Ctx)
	sym.Assert("C18.order-orders-roundtrip", sym.DeepEq(&o1, &o2))
	sym.Assert("C18.order-shards-roundtrip", sym.DeepEq(&s1, &s2))
	sym.Assert("C18.order-counters-roundtrip", w.Order.GetOrderCount(w.Ctx) == t.Order.GetOrderCount(t.Ctx) && w.Order.GetShardCount(w.Ctx) == t.Order.GetShardCount(t.Ctx))
	p1, p2 := w.Order.GetParams(w.Ctx), t.Order.GetParams(t.Ctx)
	sym.Assert("C18.order-params-roundtrip", sym.DeepEq(&p1, &p2))
}

func Ob_C18_Roundtrip_Node() {
	w := NewWorld()
	sym.SetEnumBound("node", nodetypes.NodeKeyPrefix, 2)
	sym.SetEnumBound("node", nodetypes.PledgeKeyPrefix, 2)
	sym.SetEnumBound("node", nodetypes.PledgeDebtKeyPrefix, 1)
	concreteNodeParams(w, 1000000, 1000000000000)
	_, hasPool := w.Node.GetPool(w.Ctx)
	sym.Assume(hasPool) // every genesis sets the pool; it is never removed
	gs := nodemodule.ExportGenesis(w.Ctx, w.Node)
	sym.Cover("C18.node-exported")
	sym.Assert("C18.node-export-validates", gs.Validate() == nil)
	t := NewEmptyTwin(w)
	nodemodule.InitGenesis(t.Ctx, t.Node, *gs)
	n1, n2 := w.Node.GetAllNode(w.Ctx), t.Node.GetAllNode(t.Ctx)
	pl1, pl2 := w.Node.GetAllPledge(w.Ctx), t.Node.GetAllPledge(t.Ctx)
	d1, d2 := w.Node.GetAllPledgeDebt(w.Ctx), t.Node.GetAllPledgeDebt(t.Ctx)
	po1, _ := w.Node.GetPool(w.Ctx)
	po2, has2 := t.Node.GetPool(t.Ctx)
	sym.Assert("C18.node-nodes-roundtrip", sym.DeepEq(&n1, &n2))
	sym.Assert("C18.node-pledges-roundtrip", sym.DeepEq(&pl1, &pl2))
	sym.Assert("C18.node-debts-roundtrip", sym.DeepEq(&d1, &d2))
	sym.Assert("C18.node-pool-roundtrip", has2 && sym.DeepEq(&po1, &po2))
	// state with no genesis field: open fault records, the super-node cursor
	fid := sym.String("anyFaultId")
	_, hasF1 := w.Node.GetFault(w.Ctx, fid)
	_, hasF2 := t.Node.GetFault(t.Ctx, fid)
	sym.AssertKF("C18.node-faults-roundtrip", hasF1 == hasF2, sym.KF("KF-C18-1", true))
	fm := sym.String("anyFishman")
	_, hasR1 := w.Node.GetFishingReward(w.Ctx, fm)
	_, hasR2 := t.Node.GetFishingReward(t.Ctx, fm)
	sym.AssertKF("C18.node-fishing-rewards-roundtrip", hasR1 == hasR2, sym.KF("KF-C18-1", true))
	r1, has1 := w.Node.GetNodeRound(w.Ctx)
	r2, hasr2 := t.Node.GetNodeRound(t.Ctx)
	sym.AssertKF("C18.node-round-cursor-roundtrip", (!has1 || r1 == 0) || (hasr2 && r1 == r2), sym.KF("KF-C18-1", true))
}

func Ob_C18_Roundtrip_SaoModelMarket() {
	w := NewWorld()
	sym.SetEnumBound("sao", "TimeoutOrder/value/", 1)
	sym.SetEnumBound("sao", "ExpiredShard/value/", 1)
	sym.SetEnumBound("model", "Metadata/value/", 1)
	sym.SetEnumBound("model", "Model/value/", 1)
	sym.SetEnumBound("model", "ExpiredData/value/", 1)
	sym.SetEnumBound("market", "Worker/value/", 2)
	t := NewEmptyTwin(w)
	gs := saomodule.ExportGenesis(w.Ctx, w.Sao)
	saomodule.InitGenesis(t.Ctx, t.Sao, *gs)
	gm := modelmodule.ExportGenesis(w.Ctx, w.Model)
	modelmodule.InitGenesis(t.Ctx, t.Model, *gm)
	gk := marketmodule.ExportGenesis(w.Ctx, w.Market)
	marketmodule.InitGenesis(t.Ctx, t.Market, *gk)
	sym.Cover("C18.sao-model-market-exported")
	a1, a2 := w.Sao.GetAllTimeoutOrder(w.Ctx), t.Sao.GetAllTimeoutOrder(t.Ctx)
	b1, b2 := w.Sao.GetAllExpiredShard(w.Ctx), t.Sao.GetAllExpiredShard(t.Ctx)
	sym.Assert("C18.sao-schedules-roundtrip", sym.DeepEq(&a1, &a2) && sym.DeepEq(&b1, &b2))
	m1, m2 := w.Model.GetAllMetadata(w.Ctx), t.Model.GetAllMetadata(t.Ctx)
	l1, l2 := w.Model.GetAllModel(w.Ctx), t.Model.GetAllModel(t.Ctx)
	e1, e2 := w.Model.GetAllExpiredData(w.Ctx), t.Model.GetAllExpiredData(t.Ctx)
	sym.Assert("C18.model-roundtrip", sym.DeepEq(&m1, &m2) && sym.DeepEq(&l1, &l2) && sym.DeepEq(&e1, &e2))
	k1, k2 := w.Market.GetAllWorker(w.Ctx), t.Market.GetAllWorker(t.Ctx)
	sym.Assert("C18.market-workers-roundtrip", sym.DeepEq(&k1, &k2))
}
