//go:build verif

package zzverif

import (
	didtypes "github.com/SaoNetwork/sao/x/did/types"
	nodekeeper "github.com/SaoNetwork/sao/x/node/keeper"
	nodetypes "github.com/SaoNetwork/sao/x/node/types"
	"github.com/SaoNetwork/sao/zzverif/sym"
	sdk "github.com/cosmos/cosmos-sdk/types"
)

func errName(err error) string {
	if err == nil {
		return ""
	}
	return err.Error()
}

// C01 / D-time: MsgUpdate (DID key rotation) gives the same result on two replicas that execute it at
// different wall-clock times from the same committed state.
func Ob_C01_DidUpdate_Clock() {
	w := NewWorld()
	var msg didtypes.MsgUpdate
	sym.Fill("msg", &msg)
	sym.SetBound(".RemoveAccountDid", 0) // the clock is read before the lists are looked at
	sym.SetBound(".UpdateAccountAuth", 0)
	snap := w.Snapshot()
	var err1, err2 error
	p1, _ := sym.Catch(func() { _, err1 = w.DidMsg.Update(sdk.WrapSDKContext(w.Ctx), &msg) })
	w.Rollback(snap)
	p2, _ := sym.Catch(func() { _, err2 = w.DidMsg.Update(sdk.WrapSDKContext(w.Ctx), &msg) })
	sym.Cover("C01.did-update-two-runs")
	sym.AssertKF("C01.did-update-same-result", p1 == p2 && errName(err1) == errName(err2), sym.KF("KF-C01-1", true))
}

// C01/C03/C20 D-global: the role decision of the delegation hook does not depend on what an earlier
// (possibly failed or merely simulated) transaction left in process memory.
func Ob_C01C03C20_Hook_GlobalResidue() {
	w := NewWorld()
	del, val := sym.String("delegator"), sym.String("validator")
	delAddr, e1 := sdk.AccAddressFromBech32(del)
	valAddr, e2 := sdk.ValAddressFromBech32(val)
	sym.Assume(e1 == nil && e2 == nil)
	w.Staking.DeclareDelegation(del, val)
	w.Staking.DeclareValidator(val)
	n0, isNode := w.HookNode.GetNode(w.Ctx, del)
	sym.Assume(isNode && n0.Role <= 1)
	hooks := w.HookNode.Hooks()
	snap := w.Snapshot()
	nodekeeper.VerifSetSharesBeforeModified(sym.DecNonNeg("residue")) // whatever an earlier transaction left behind
	// a panic inside a staking hook aborts the staking transaction (baseapp recovers it in DeliverTx)
	p1, _ := sym.Catch(func() { hooks.AfterDelegationModified(w.Ctx, delAddr, valAddr) })
	n1, _ := w.HookNode.GetNode(w.Ctx, del)
	w.Rollback(snap)
	nodekeeper.VerifSetSharesBeforeModified(sdk.NewDec(0)) // a freshly started process
	p2, _ := sym.Catch(func() { hooks.AfterDelegationModified(w.Ctx, delAddr, valAddr) })
	n2, _ := w.HookNode.GetNode(w.Ctx, del)
	if p1 || p2 {
		sym.AssertKF("C03.same-abort-regardless-of-process-memory", p1 == p2, sym.KF("KF-C03-1", true))
		return
	}
	sym.Cover("C03.hook-two-runs")
	sym.AssertKF("C03.role-independent-of-process-memory", n1.Role == n2.Role, sym.KF("KF-C03-1", true))
}

// C03 R-writers: every path of BeforeDelegationSharesModified followed by the pairing After hook leaves the
// process global at its reset value (no residue after a complete hook pair).
func Ob_C03_Hook_PairResetsGlobal() {
	w := NewWorld()
	del, val := sym.String("delegator"), sym.String("validator")
	delAddr, e1 := sdk.AccAddressFromBech32(del)
	valAddr, e2 := sdk.ValAddressFromBech32(val)
	sym.Assume(e1 == nil && e2 == nil)
	w.Staking.DeclareDelegation(del, val)
	w.Staking.DeclareValidator(val)
	d := w.Staking.Delegation(w.Ctx, delAddr, valAddr)
	sym.Assume(d != nil)
	hooks := w.HookNode.Hooks()
	nodekeeper.VerifSetSharesBeforeModified(sdk.NewDec(0))
	panicked, _ := sym.Catch(func() {
		hooks.BeforeDelegationSharesModified(w.Ctx, delAddr, valAddr)
		hooks.AfterDelegationModified(w.Ctx, delAddr, valAddr)
	})
	if panicked {
		return
	}
	sym.Cover("C03.hook-pair")
	sym.Assert("C03.pair-resets-global", nodekeeper.VerifGetSharesBeforeModified().IsZero())
	_ = nodetypes.ModuleName
}

// C03 restart equivalence on provider selection: after a selection whose transaction is rolled back (a
// failed or simulated MsgStore), a node that keeps running and a node restarted from its database select
// the same provider and store the same cursor for the next order.
func Ob_C03C15_Restart_Selection() {
	w := NewWorld()
	sym.SetEnumBound("node", nodetypes.NodeKeyPrefix, 2)
	size := sym.Int64("size")
	sym.Assume(size >= 1 && size < 1<<40)
	snap := w.Snapshot()
	w.Node.GetNextSuperNodes(w.Ctx, spStatus, 8000.0, nil, size) // part of a transaction that is rolled back
	w.Rollback(snap)
	a := w.Node.GetNextSuperNodes(w.Ctx, spStatus, 8000.0, nil, size) // the node that kept running
	ra, hasA := w.Node.GetNodeRound(w.Ctx)
	w.Rollback(snap)
	t := w.Rewire() // the node restarted from its database
	b := t.Node.GetNextSuperNodes(t.Ctx, spStatus, 8000.0, nil, size)
	rb, hasB := t.Node.GetNodeRound(t.Ctx)
	sym.Cover("C03.restart-selection")
	sym.Assert("C03.same-selection-after-restart", a.Creator == b.Creator && hasA == hasB && ra == rb)
}
