//go:build verif

package zzverif

import (
	didtypes "github.com/SaoNetwork/sao/x/did/types"
	nodetypes "github.com/SaoNetwork/sao/x/node/types"
	"github.com/SaoNetwork/sao/zzverif/sym"
	sdk "github.com/cosmos/cosmos-sdk/types"
)

func errName(err error) string {
	if err == nil {
		return ""
	}
	return err.Error()
}

// C01 / D-time: MsgUpdate (DID key rotation) gives the same result on two replicas that execute it at
// different wall-clock times from the same committed state.
func Ob_C01_DidUpdate_Clock() {
	w := NewWorld()
	var msg didtypes.MsgUpdate
	sym.Fill("msg", &msg)
	sym.SetBound(".RemoveAccountDid", 0) // the clock is read before the lists are looked at
	sym.SetBound(".UpdateAccountAuth", 0)
	snap := w.Snapshot()
	var err1, err2 error
	p1, _ := sym.Catch(func() { _, err1 = w.DidMsg.Update(sdk.WrapSDKContext(w.Ctx), &msg) })
	w.Rollback(snap)
	p2, _ := sym.Catch(func() { _, err2 = w.DidMsg.Update(sdk.WrapSDKContext(w.Ctx), &msg) })
	sym.Cover("C01.did-update-two-runs")
	sym.AssertKF("C01.did-update-same-result", p1 == p2 && errName(err1) == errName(err2), sym.KF("KF-C01-1", true))
}

// C01/C03/C20 D-global: the role decision of the delegation hook does not depend on what an earlier
// transaction that failed after its Before hook, or was merely simulated (gas estimation), left in process
// memory. Replica B never saw that transaction; replica A executed it and discarded its writes.
func Ob_C01C03C20_Hook_GlobalResidue() {
	w := NewWorld()
	concreteNodeParams(w, 1000000, 1000000000000) // validated default thresholds (the decision does not depend on which)
	del, val := sym.String("delegator"), sym.String("validator")
	delAddr, e1 := sdk.AccAddressFromBech32(del)
	valAddr, e2 := sdk.ValAddressFromBech32(val)
	sym.Assume(e1 == nil && e2 == nil)
	w.Staking.DeclareDelegation(del, val)
	w.Staking.DeclareValidator(val)
	n0, isNode := w.HookNode.GetNode(w.Ctx, del)
	sym.Assume(isNode && n0.Role <= 1)
	sym.Assume(w.HookNode.GetSharesBeforeModified(w.Ctx).IsZero()) // no hook pair is open at a transaction boundary
	// the earlier transaction touches some other delegation
	del2, val2 := sym.String("otherDelegator"), sym.String("otherValidator")
	del2Addr, e3 := sdk.AccAddressFromBech32(del2)
	val2Addr, e4 := sdk.ValAddressFromBech32(val2)
	sym.Assume(e3 == nil && e4 == nil && del2 != del && val2 != val)
	w.Staking.DeclareDelegation(del2, val2)
	earlier := sym.Int("earlierTx") // 0: fails between its two hooks, 1: complete but only simulated
	sym.Assume(earlier == 0 || earlier == 1)
	hooks := w.HookNode.Hooks()
	snap := w.Snapshot()
	// a panic inside a staking hook aborts the staking transaction (baseapp recovers it in DeliverTx)
	pB, _ := sym.Catch(func() { hooks.AfterDelegationModified(w.Ctx, delAddr, valAddr) })
	nB, _ := w.HookNode.GetNode(w.Ctx, del)
	w.Rollback(snap)
	sym.Catch(func() {
		hooks.BeforeDelegationSharesModified(w.Ctx, del2Addr, val2Addr)
		if earlier == 1 {
			hooks.AfterDelegationModified(w.Ctx, del2Addr, val2Addr)
		}
	})
	w.Rollback(snap) // its writes are discarded; process memory is not
	pA, _ := sym.Catch(func() { hooks.AfterDelegationModified(w.Ctx, delAddr, valAddr) })
	nA, _ := w.HookNode.GetNode(w.Ctx, del)
	if pA || pB {
		sym.AssertKF("C03.same-abort-regardless-of-process-memory", pA == pB, sym.KF("KF-C03-1", true))
		return
	}
	sym.Cover("C03.hook-two-runs")
	sym.AssertKF("C03.role-independent-of-process-memory", nA.Role == nB.Role, sym.KF("KF-C03-1", true))
}

// C03 R-writers: a complete Before/After hook pair leaves nothing behind - neither in the store (the
// hand-over entry is consumed) nor anywhere a later hook would read it.
func Ob_C03C20_Hook_PairResetsGlobal() {
	w := NewWorld()
	concreteNodeParams(w, 1000000, 1000000000000)
	del, val := sym.String("delegator"), sym.String("validator")
	delAddr, e1 := sdk.AccAddressFromBech32(del)
	valAddr, e2 := sdk.ValAddressFromBech32(val)
	sym.Assume(e1 == nil && e2 == nil)
	w.Staking.DeclareDelegation(del, val)
	w.Staking.DeclareValidator(val)
	d := w.Staking.Delegation(w.Ctx, delAddr, valAddr)
	sym.Assume(d != nil)
	sym.Assume(w.HookNode.GetSharesBeforeModified(w.Ctx).IsZero())
	hooks := w.HookNode.Hooks()
	panicked, _ := sym.Catch(func() {
		hooks.BeforeDelegationSharesModified(w.Ctx, delAddr, valAddr)
		hooks.AfterDelegationModified(w.Ctx, delAddr, valAddr)
	})
	if panicked {
		return
	}
	sym.Cover("C03.hook-pair")
	sym.Assert("C03.pair-consumes-handover", w.HookNode.GetSharesBeforeModified(w.Ctx).IsZero())
	_ = nodetypes.ModuleName
}

// C03 restart equivalence on provider selection: after a selection whose transaction is rolled back (a
// failed or simulated MsgStore), a node that keeps running and a node restarted from its database select
// the same provider and store the same cursor for the next order.
func Ob_C03C15_Restart_Selection() {
	w := NewWorld()
	sym.SetEnumBound("node", nodetypes.NodeKeyPrefix, 2)
	size := sym.Int64("size")
	sym.Assume(size >= 1 && size < 1<<40)
	snap := w.Snapshot()
	w.Node.GetNextSuperNodes(w.Ctx, spStatus, 8000.0, nil, size) // part of a transaction that is rolled back
	w.Rollback(snap)
	a := w.Node.GetNextSuperNodes(w.Ctx, spStatus, 8000.0, nil, size) // the node that kept running
	ra, hasA := w.Node.GetNodeRound(w.Ctx)
	w.Rollback(snap)
	t := w.Rewire() // the node restarted from its database
	b := t.Node.GetNextSuperNodes(t.Ctx, spStatus, 8000.0, nil, size)
	rb, hasB := t.Node.GetNodeRound(t.Ctx)
	sym.Cover("C03.restart-selection")
	sym.Assert("C03.same-selection-after-restart", a.Creator == b.Creator && hasA == hasB && ra == rb)
}
