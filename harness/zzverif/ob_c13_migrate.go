//go:build verif

package zzverif

import (
	"math/big"

	modeltypes "github.com/SaoNetwork/sao/x/model/types"
	ordertypes "github.com/SaoNetwork/sao/x/order/types"
	saotypes "github.com/SaoNetwork/sao/x/sao/types"
	"github.com/SaoNetwork/sao/zzverif/sym"
	sdk "github.com/cosmos/cosmos-sdk/types"
)

// C13 migration of a renewed shard: every order that listed the old shard - the order named in the message,
// the order the shard is serving, and every queued renewal order - lists the new shard instead afterwards;
// none keeps the id of the removed shard. Covers both histories: renewal before MsgMigrate (the renewal order
// is the one the message names) and MsgMigrate before the renewal (the renewal order copied both shard ids).
func Ob_C13_Complete_Migration_Renewed() { renewedMigration(false) }

// the history "MsgMigrate, then two renewals": both renewal orders copied [old shard, migrating shard]
func Ob_C13_Complete_Migration_TwoRenewals() { renewedMigration(true) }

func renewedMigration(two bool) {
	w := NewWorld()
	sym.SetBound("Order.Shards", 2)
	sym.SetBound("Shard.RenewInfos", 2)
	sym.SetBound("Metadata.Orders", 0)
	var msg saotypes.MsgComplete
	sym.Fill("msg", &msg)
	sym.Assume(msg.Creator == msg.Provider)
	o, found := w.Order.GetOrder(w.Ctx, msg.OrderId)
	sym.Assume(found && o.Status == ordertypes.OrderCompleted && len(o.Shards) == 2 && o.Shards[0] != o.Shards[1] && o.Id == msg.OrderId)
	old, fo := w.Order.GetShard(w.Ctx, o.Shards[0])
	ns, fn := w.Order.GetShard(w.Ctx, o.Shards[1])
	sym.Assume(fo && fn && old.Status == ordertypes.ShardCompleted && old.Id == o.Shards[0] &&
		ns.Status == ordertypes.ShardMigrating && ns.Sp == msg.Provider && ns.From == old.Sp && ns.Sp != old.Sp && ns.Id == o.Shards[1] && ns.Size_ == old.Size_ && len(ns.RenewInfos) == 0)
	sym.Assume(len(old.RenewInfos) >= 1 && old.OrderId == o.Id)
	if two {
		sym.Assume(len(old.RenewInfos) == 2)
	} else if sym.Tier() == "quick" {
		sym.Assume(len(old.RenewInfos) == 1)
	}
	sym.Assume(uint64(w.Height()) >= old.CreatedAt && uint64(w.Height()) < old.CreatedAt+old.Duration)
	// every queued renewal order lists the shard it renews (and, if it was created after MsgMigrate, the migrating
	// one too); renewal orders are distinct
	rids := make([]uint64, len(old.RenewInfos))
	for k, info := range old.RenewInfos {
		rids[k] = info.OrderId
		r, fr := w.Order.GetOrder(w.Ctx, info.OrderId)
		sym.Assume(fr && r.Id == info.OrderId && r.Operation == 3 && inListU64(old.Id, r.Shards) && info.Pledge.Amount.IsZero())
		if two {
			sym.Assume(len(r.Shards) == 2 && r.Shards[0] == old.Id && r.Shards[1] == ns.Id && r.Id != o.Id)
		}
		for i := range r.Shards {
			for j := 0; j < i; j++ {
				sym.Assume(r.Shards[i] != r.Shards[j])
			}
		}
		for j := 0; j < k; j++ {
			sym.Assume(rids[j] != rids[k])
		}
	}
	m, fm := w.Model.GetMetadata(w.Ctx, o.DataId)
	sym.Assume(fm && m.Status == modeltypes.MetaComplete)
	pa, fpa := w.Node.GetPledge(w.Ctx, old.Sp)
	wa, fwa := w.Market.GetWorker(w.Ctx, workerName(old.Sp))
	sym.Assume(fpa && fwa && pa.TotalShardPledged.Amount.GTE(old.Pledge.Amount) && pa.UsedStorage >= int64(old.Size_) && wa.Storage >= old.Size_ && wa.LastRewardAt <= w.Height())
	sym.Assume(w.Bal(modAddr("node"), WorldDenom).Cmp(old.Pledge.Amount.BigInt()) >= 0)
	_, hasDebtA := w.Node.GetPledgeDebt(w.Ctx, old.Sp)
	sym.Assume(!hasDebtA)
	wb0, hadWb := w.Market.GetWorker(w.Ctx, workerName(ns.Sp))
	sym.Assume(!hadWb || wb0.LastRewardAt <= w.Height())
	// a quiet new provider (its pledge bookkeeping is C07's subject): a fresh pledge record without debt, enough funds,
	// no node record to credit reputation to
	pb, fpb := w.Node.GetPledge(w.Ctx, ns.Sp)
	_, hasDebtB := w.Node.GetPledgeDebt(w.Ctx, ns.Sp)
	_, hasNodeB := w.Node.GetNode(w.Ctx, ns.Sp)
	sym.Assume(fpb && !hasDebtB && !hasNodeB && pb.TotalStorage == 1<<41 && pb.UsedStorage == 0)
	sym.Assume(w.Bal(ns.Sp, WorldDenom).Cmp(newInt64Big(1<<62)) >= 0)
	// the money side of the hand-over is Ob_C04C11C13C14_Complete_Migration's subject: here the price and the renewal
	// pledge are zero and there is one replica, so that only the re-listing logic branches
	sym.Assume(o.UnitPrice.Amount.IsZero() && o.Replica == 1 && o.Amount.Amount.LT(sdk.NewInt(1<<40)))
	var err error
	panicked, _ := sym.Catch(func() { _, err = w.SaoMsg.Complete(sdk.WrapSDKContext(w.Ctx), &msg) })
	if panicked || err != nil {
		return
	}
	sym.Cover("C13.renewed-migration-completes")
	_, oldStill := w.Order.GetShard(w.Ctx, old.Id)
	sym.Assert("C13.renewed-migration-removes-old-shard", !oldStill)
	for _, rid := range rids {
		r1, fr1 := w.Order.GetOrder(w.Ctx, rid)
		sym.Assert("C13.renewal-order-drops-removed-shard", fr1 && !inListU64(old.Id, r1.Shards))
		sym.Assert("C13.renewal-order-lists-new-shard-once", countU64(ns.Id, r1.Shards) == 1)
	}
	n1, f1 := w.Order.GetShard(w.Ctx, ns.Id)
	sym.Assert("C13.new-shard-inherits-renewals", f1 && len(n1.RenewInfos) == len(rids) && n1.RenewInfos[0].OrderId == rids[0])
}

func newInt64Big(x int64) *big.Int { return big.NewInt(x) }
