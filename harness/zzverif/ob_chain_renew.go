//go:build verif

package zzverif

import (
	modeltypes "github.com/SaoNetwork/sao/x/model/types"
	ordertypes "github.com/SaoNetwork/sao/x/order/types"
	saotypes "github.com/SaoNetwork/sao/x/sao/types"
	"github.com/SaoNetwork/sao/zzverif/sym"
	sdk "github.com/cosmos/cosmos-sdk/types"
)

// renewWindow: a completed order with one completed shard whose provider stores nothing else, so that the
// aggregate invariants of C14 read "counter == this shard's contribution".
func renewWindow(w *World) (msg saotypes.MsgRenew, o ordertypes.Order, s ordertypes.Shard, ok bool) {
	sym.Fill("msg", &msg)
	sym.Assume(len(msg.Proposal.Data) == 1)
	m, mf := w.Model.GetMetadata(w.Ctx, msg.Proposal.Data[0])
	sym.Assume(mf && m.Status == modeltypes.MetaComplete && len(m.Orders) == 1 && m.Orders[0] == m.OrderId)
	o, of := w.Order.GetOrder(w.Ctx, m.OrderId)
	sym.Assume(of && o.Status == ordertypes.OrderCompleted && len(o.Shards) == 1 && o.DataId == m.DataId && o.Replica == 1)
	s, sf := w.Order.GetShard(w.Ctx, o.Shards[0])
	sym.Assume(sf && s.Status == ordertypes.ShardCompleted && s.OrderId == o.Id && len(s.RenewInfos) == 0 && s.Size_ == o.Size_)
	p, pf := w.Node.GetPledge(w.Ctx, s.Sp)
	sym.Assume(pf && p.TotalShardPledged.Amount.Equal(s.Pledge.Amount) && p.UsedStorage == int64(s.Size_))
	sym.Assume(uint64(w.Height()) <= s.CreatedAt+s.Duration && s.CreatedAt <= uint64(w.Height()))
	// a quiet neighbourhood (each is one of the cases the thorough tier leaves open): the gateway signs itself,
	// the provider has no recorded debt, the schedules touched by the renewal hold nothing else
	sym.Assume(msg.Provider == msg.Creator)
	if sym.Tier() == "quick" {
		_, hasDebt := w.Node.GetPledgeDebt(w.Ctx, s.Sp)
		_, e1 := w.Model.GetExpiredData(w.Ctx, m.CreatedAt+m.Duration)
		sym.Assume(!hasDebt && !e1 && m.CreatedAt+m.Duration == s.CreatedAt+s.Duration)
		_, e2 := w.Model.GetExpiredData(w.Ctx, s.CreatedAt+s.Duration+msg.Proposal.Duration)
		sym.Assume(!e2)
	}
	return msg, o, s, true
}

// C14/C07 Σ-P3 under Renew: after a successful renewal the provider's total shard collateral still equals
// the collateral recorded on its (only) shard.
func Ob_C02C07C14_Renew_ShardPledgeSum() {
	w := NewWorld()
	msg, _, s, _ := renewWindow(w)
	var err error
	panicked, _ := sym.Catch(func() { _, err = w.SaoMsg.Renew(sdk.WrapSDKContext(w.Ctx), &msg) })
	if panicked || err != nil {
		return
	}
	s1, f := w.Order.GetShard(w.Ctx, s.Id)
	if !f || len(s1.RenewInfos) == 0 {
		return // this data id was not renewed
	}
	sym.Cover("C14.renew-succeeds")
	p1, _ := w.Node.GetPledge(w.Ctx, s.Sp)
	sym.AssertKF("C14.renew-shardpledged-sum", p1.TotalShardPledged.Amount.Equal(s1.Pledge.Amount),
		sym.KF("KF-C14-1", s1.Pledge.Amount.GT(s.Pledge.Amount)))
	sym.Assert("C14.renew-used-unchanged", p1.UsedStorage == int64(s.Size_))
}

// C02 / K-chain: renew, then let the shard run through both scheduled expiries. The end-blocker path must
// return (baseapp does not recover panics in EndBlock).
func Ob_C02_RenewThenExpire_T() {
	w := NewWorld()
	msg, _, s, _ := renewWindow(w)
	var err error
	panicked, _ := sym.Catch(func() { _, err = w.SaoMsg.Renew(sdk.WrapSDKContext(w.Ctx), &msg) })
	if panicked || err != nil {
		return
	}
	s1, f := w.Order.GetShard(w.Ctx, s.Id)
	if !f || len(s1.RenewInfos) != 1 {
		return
	}
	// solvency of the node escrow for what the records promise back
	sym.Assume(w.Bal(modAddr("node"), WorldDenom).Cmp(s1.Pledge.Amount.BigInt()) >= 0)
	_, hadW := w.Market.GetWorker(w.Ctx, workerName(s.Sp))
	sym.Assume(hadW)
	end1 := int64(s1.CreatedAt + s1.Duration)
	w.Ctx = w.Ctx.WithBlockHeight(end1)
	w.Sao.HandleExpiredShard(w.Ctx, s.Id) // rotates to the renewed period
	s2, f2 := w.Order.GetShard(w.Ctx, s.Id)
	if !f2 {
		return
	}
	end2 := int64(s2.CreatedAt + s2.Duration)
	w.Ctx = w.Ctx.WithBlockHeight(end2)
	panicked2, _ := sym.Catch(func() { w.Sao.HandleExpiredShard(w.Ctx, s.Id) })
	sym.Cover("C02.renew-expire-chain")
	sym.AssertKF("C02.expiry-after-renew-returns", !panicked2, sym.KF("KF-C14-1", s1.Pledge.Amount.GT(s.Pledge.Amount)))
}
