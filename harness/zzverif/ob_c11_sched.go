//go:build verif

package zzverif

import (
	"github.com/SaoNetwork/sao/zzverif/sym"
)

// C11/C13 ExtendMetaDuration (called when a shard completes later than the model's scheduled end, and by
// MsgRenew): the model's deletion moves from the old height to the new one - the old entry loses exactly this
// data id and keeps every other model scheduled there, the new height lists the model, nothing else moves.
func Ob_C11C13_ExtendMetaDuration() {
	w := NewWorld()
	sym.SetBound("ExpiredData.Data", 2)
	dataId := sym.String("dataId")
	m0, found := w.Model.GetMetadata(w.Ctx, dataId)
	sym.Assume(found && m0.DataId == dataId && m0.CreatedAt < 1<<40 && m0.Duration < 1<<40)
	expiredAt := sym.Uint64("expiredAt")
	sym.Assume(expiredAt < 1<<41 && expiredAt >= m0.CreatedAt)
	oldH := m0.CreatedAt + m0.Duration
	e0, had0 := w.Model.GetExpiredData(w.Ctx, oldH)
	// schedule invariant: the model is scheduled (once) at its current end
	sym.Assume(had0 && countStr(dataId, e0.Data) == 1)
	others := make([]string, 0)
	for _, id := range e0.Data {
		if id != dataId {
			others = append(others, id)
		}
	}
	n0, hadN := w.Model.GetExpiredData(w.Ctx, expiredAt)
	sym.Assume(expiredAt == oldH || !hadN || !inList(dataId, n0.Data)) // a model is scheduled at one height only
	w.Model.ExtendMetaDuration(w.Ctx, dataId, expiredAt)
	sym.Cover("C11.extend-called")
	m1, _ := w.Model.GetMetadata(w.Ctx, dataId)
	if m0.Duration >= expiredAt-m0.CreatedAt {
		sym.Assert("C11.extend-never-shortens", m1.Duration == m0.Duration)
		return
	}
	sym.Cover("C11.extend-extends")
	sym.Assert("C11.extend-duration", m1.CreatedAt+m1.Duration == expiredAt)
	e1, has1 := w.Model.GetExpiredData(w.Ctx, oldH)
	sym.Assert("C11.extend-unschedules-old-height", !has1 || !inList(dataId, e1.Data))
	for _, id := range others {
		sym.Assert("C11.extend-keeps-other-models-scheduled", has1 && countStr(id, e1.Data) == 1)
	}
	if has1 {
		sym.Assert("C11.extend-old-entry-has-only-the-others", len(e1.Data) == len(others))
	}
	n1, hasN1 := w.Model.GetExpiredData(w.Ctx, expiredAt)
	sym.Assert("C11.extend-schedules-new-height", hasN1 && countStr(dataId, n1.Data) == 1)
	if hadN && expiredAt != oldH {
		for _, id := range n0.Data {
			sym.Assert("C11.extend-keeps-new-height-entries", inList(id, n1.Data))
		}
	}
}

func countStr(x string, l []string) int {
	n := 0
	for _, s := range l {
		if s == x {
			n++
		}
	}
	return n
}

// C11/C13 DeleteMeta (MsgTerminate and the model end blocker): the model, its alias entry and its scheduled
// deletion go together - no stale schedule entry stays behind that would delete a model re-created under
// the same data id at the old height - and the other models scheduled at that height stay scheduled.
func Ob_C11C13_DeleteMeta() {
	w := NewWorld()
	sym.SetBound("ExpiredData.Data", 2)
	dataId := sym.String("dataId")
	m0, found := w.Model.GetMetadata(w.Ctx, dataId)
	sym.Assume(found && m0.DataId == dataId)
	h := m0.CreatedAt + m0.Duration
	e0, had0 := w.Model.GetExpiredData(w.Ctx, h)
	sym.Assume(had0 && countStr(dataId, e0.Data) == 1) // schedule invariant: the model is scheduled (once) at its end
	others := make([]string, 0)
	for _, id := range e0.Data {
		if id != dataId {
			others = append(others, id)
		}
	}
	err := w.Model.DeleteMeta(w.Ctx, dataId)
	sym.Cover("C11.deletemeta-called")
	sym.Assert("C11.deletemeta-no-error", err == nil)
	_, still := w.Model.GetMetadata(w.Ctx, dataId)
	_, alias := w.Model.GetModel(w.Ctx, aliasKey(m0))
	sym.Assert("C13.deletemeta-removes-model-and-alias", !still && !alias)
	e1, has1 := w.Model.GetExpiredData(w.Ctx, h)
	sym.Assert("C11.deletemeta-unschedules-the-model", !has1 || !inList(dataId, e1.Data))
	for _, id := range others {
		sym.Assert("C11.deletemeta-keeps-other-models-scheduled", has1 && countStr(id, e1.Data) == 1)
	}
}
