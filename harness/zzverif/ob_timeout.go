//go:build verif

package zzverif

import (
	nodetypes "github.com/SaoNetwork/sao/x/node/types"
	ordertypes "github.com/SaoNetwork/sao/x/order/types"
	"github.com/SaoNetwork/sao/zzverif/sym"
)

func refundsFromOrderEscrow(w *World, nT int, o ordertypes.Order, payer string) (n int, exact bool) {
	exact = true
	for _, t := range w.TransfersSince(nT) {
		if t.From == modAddr(ordertypes.ModuleName) {
			n++
			exact = sym.And(exact, t.To == payer, t.Amt.Cmp(o.Amount.Amount.BigInt()) == 0, t.Denom == o.Amount.Denom)
		}
	}
	return
}

// C05/C12 T-timeout-maxtries: an unfinished order for which no replacement provider exists any more after
// ten timeout intervals is cancelled: full refund, the order and every shard it lists disappear.
func Ob_C05C12_Timeout_GiveUp() {
	w := NewWorld()
	sym.SetBound("Order.Shards", 2)
	sym.SetEnumBound("node", nodetypes.NodeKeyPrefix, 0) // no provider is left to take over
	id := sym.Uint64("orderId")
	o, found := w.Order.GetOrder(w.Ctx, id)
	sym.Assume(found && o.Status == ordertypes.OrderDataReady && len(o.Shards) >= 1)
	sym.Assume(uint64(w.Height())+o.Timeout < o.CreatedAt+o.Duration && uint64(w.Height()) >= o.CreatedAt)
	sym.Assume(uint64(w.Height())-o.CreatedAt > 10*o.Timeout)
	waiting := 0
	for _, sid := range o.Shards {
		s, f := w.Order.GetShard(w.Ctx, sid)
		sym.Assume(f && (s.Status == ordertypes.ShardWaiting || s.Status == ordertypes.ShardTimeout) && s.OrderId == id)
		if s.Status == ordertypes.ShardWaiting {
			waiting++
		}
	}
	sym.Assume(waiting >= 1)
	if len(o.Shards) == 2 {
		sym.Assume(o.Shards[0] != o.Shards[1])
	}
	payer, hasPayer := payerOf(w, o)
	sym.Assume(hasPayer && w.Bal(modAddr(ordertypes.ModuleName), WorldDenom).Cmp(o.Amount.Amount.BigInt()) >= 0 && o.Amount.Amount.IsPositive())
	_, hasMeta := w.Model.GetMetadata(w.Ctx, o.DataId)
	sym.Assume(!hasMeta || sym.Tier() != "quick") // the rollback of the model is C05_Cancel's subject
	nT := w.TransferCount()
	w.Sao.HandleTimeoutOrder(w.Ctx, id)
	sym.Cover("C05.timeout-giveup")
	_, still := w.Order.GetOrder(w.Ctx, id)
	sym.Assert("C05.giveup-order-gone", !still)
	for _, sid := range o.Shards {
		_, f := w.Order.GetShard(w.Ctx, sid)
		sym.Assert("C05.giveup-shard-gone", !f)
	}
	n, exact := refundsFromOrderEscrow(w, nT, o, payer)
	sym.Assert("C05.giveup-full-refund", n == 1 && exact)
}

// C05 T-timeout-pending: a pending order that reaches its timeout is cancelled with a full refund.
func Ob_C05C12_Timeout_Pending() {
	w := NewWorld()
	id := sym.Uint64("orderId")
	o, found := w.Order.GetOrder(w.Ctx, id)
	sym.Assume(found && o.Status == ordertypes.OrderPending && len(o.Shards) == 0)
	payer, hasPayer := payerOf(w, o)
	sym.Assume(hasPayer && w.Bal(modAddr(ordertypes.ModuleName), WorldDenom).Cmp(o.Amount.Amount.BigInt()) >= 0 && o.Amount.Amount.IsPositive())
	if sym.Tier() == "quick" {
		_, hasMeta := w.Model.GetMetadata(w.Ctx, o.DataId)
		sym.Assume(!hasMeta)
	}
	nT := w.TransferCount()
	w.Sao.HandleTimeoutOrder(w.Ctx, id)
	sym.Cover("C05.timeout-pending")
	_, still := w.Order.GetOrder(w.Ctx, id)
	sym.Assert("C05.pending-order-gone", !still)
	n, exact := refundsFromOrderEscrow(w, nT, o, payer)
	sym.Assert("C05.pending-full-refund", n == 1 && exact)
}

// C12 F-after-stored: once every listed shard is completed the timeout handler changes nothing.
func Ob_C12_Timeout_AfterStored() {
	w := NewWorld()
	sym.SetBound("Order.Shards", 2)
	id := sym.Uint64("orderId")
	o, found := w.Order.GetOrder(w.Ctx, id)
	sym.Assume(found && o.Status == ordertypes.OrderCompleted && len(o.Shards) >= 1)
	for _, sid := range o.Shards {
		s, f := w.Order.GetShard(w.Ctx, sid)
		sym.Assume(f && s.Status == ordertypes.ShardCompleted)
	}
	snap, nT := w.Snapshot(), w.TransferCount()
	w.Sao.HandleTimeoutOrder(w.Ctx, id)
	sym.Cover("C12.timeout-after-stored")
	sym.Assert("C12.after-stored-no-transfer", w.TransferCount() == nT)
	sym.Assert("C12.after-stored-no-write", !w.WrittenAny(snap, "order") && !w.WrittenAny(snap, "sao") && !w.WrittenAny(snap, "model") && !w.WrittenAny(snap, "node") && !w.WrittenAny(snap, "market"))
}

// C12 T-step-reschedule: an unresolved examination before the give-up bound re-schedules the order at now+Timeout.
func Ob_C12_Timeout_Reschedule() {
	w := NewWorld()
	sym.SetBound("Order.Shards", 1)
	sym.SetEnumBound("node", nodetypes.NodeKeyPrefix, 0)
	id := sym.Uint64("orderId")
	o, found := w.Order.GetOrder(w.Ctx, id)
	sym.Assume(found && o.Status == ordertypes.OrderDataReady && len(o.Shards) == 1 && o.Id == id)
	s, f := w.Order.GetShard(w.Ctx, o.Shards[0])
	sym.Assume(f && s.Status == ordertypes.ShardWaiting)
	sym.Assume(uint64(w.Height())+o.Timeout < o.CreatedAt+o.Duration && uint64(w.Height()) >= o.CreatedAt)
	sym.Assume(uint64(w.Height())-o.CreatedAt <= 10*o.Timeout)
	nT := w.TransferCount()
	w.Sao.HandleTimeoutOrder(w.Ctx, id)
	sym.Cover("C12.timeout-reschedule")
	t, has := w.Sao.GetTimeoutOrder(w.Ctx, uint64(w.Height())+o.Timeout)
	sym.Assert("C12.rescheduled", has && inListU64(id, t.OrderList))
	_, still := w.Order.GetOrder(w.Ctx, id)
	sym.Assert("C12.unresolved-order-kept", still && w.TransferCount() == nT)
}
