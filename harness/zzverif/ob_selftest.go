//go:build verif

package zzverif

import (
	"encoding/binary"
	"encoding/json"
	"fmt"
	"regexp"
	"strconv"
	"strings"

	"github.com/SaoNetwork/sao/zzverif/sym"
	sdk "github.com/cosmos/cosmos-sdk/types"
)

// ---- S00: validation of the translator itself (DESIGN §10). Each obligation pushes concrete inputs through
// the *symbolic* encodings (sym.Opaque* hands the engine a variable constrained to the value, so no constant
// folding applies) and asserts what the real Go functions return. The same obligations are executed natively
// (`./check selftest`), where the asserts run against the real functions: an expectation that is wrong fails
// there, an encoding that is wrong fails symbolically.

func Ob_S00_Strings() {
	s := sym.OpaqueString("cosmos:sao-1:sao1abc")
	p := strings.Split(s, ":")
	sym.Assert("S00.split-3", len(p) == 3 && p[0] == "cosmos" && p[1] == "sao-1" && p[2] == "sao1abc")
	t := sym.OpaqueString("tendermint/PubKeySecp256k1.QUJD.REVG")
	q := strings.Split(t, ".")
	sym.Assert("S00.split-dot", len(q) == 3 && q[1] == "QUJD" && q[2] == "REVG")
	sym.Assert("S00.split-none", len(strings.Split(sym.OpaqueString("abc"), ":")) == 1)
	sym.Assert("S00.split-empty-tail", len(strings.Split(sym.OpaqueString("a:"), ":")) == 2 && strings.Split(sym.OpaqueString("a:"), ":")[1] == "")
	sym.Assert("S00.contains", strings.Contains(s, "sao-1") && !strings.Contains(s, "sao-2"))
	sym.Assert("S00.hasprefix", strings.HasPrefix(s, "cosmos:") && !strings.HasPrefix(s, "eip155:") && strings.HasSuffix(s, "abc"))
	sym.Assert("S00.index", strings.Index(s, ":") == 6 && strings.Index(s, "#") == -1)
	// (free strings are split / counted up to the tier's separator bound: one '+' here)
	sym.Assert("S00.count", strings.Count(sym.OpaqueString("+a|-a"), "+") == 1 && strings.Count(sym.OpaqueString("a|b"), "+") == 0)
	sym.Assert("S00.replace", strings.ReplaceAll(sym.OpaqueString("+a|+b"), "+", "") == "a|b")
	sym.Assert("S00.join", strings.Join([]string{sym.OpaqueString("a"), "b"}, ",") == "a,b")
	sym.Assert("S00.concat-len", len(s+"/") == 21)
	sym.Assert("S00.compare", sym.OpaqueString("abc") < sym.OpaqueString("abd") && !(sym.OpaqueString("b") < sym.OpaqueString("ab")))
	sym.Assert("S00.sprintf", fmt.Sprintf("%s-%s", sym.OpaqueString("sao"), "x") == "sao-x" && fmt.Sprintf("%d", sym.OpaqueUint64(42)) == "42")
	sym.Assert("S00.itoa", strconv.FormatUint(sym.OpaqueUint64(1234567), 10) == "1234567" && fmt.Sprint(sym.OpaqueUint64(0)) == "0")
	sym.Cover("S00.strings-done")
}

func Ob_S00_MachineInts() {
	a := sym.OpaqueUint64(1<<63 + 5)
	sym.Assert("S00.u64-wrap-add", a+a == 10)
	sym.Assert("S00.u64-wrap-sub", sym.OpaqueUint64(3)-sym.OpaqueUint64(5) == 1<<64-2)
	sym.Assert("S00.u64-to-i64", int64(a) == -(1<<63)+5)
	b := sym.OpaqueInt64(-7)
	sym.Assert("S00.i64-div-trunc", b/2 == -3 && b%2 == -1 && b/sym.OpaqueInt64(-2) == 3)
	sym.Assert("S00.i64-to-u64", uint64(b) == 1<<64-7)
	sym.Assert("S00.i64-to-i32", int32(sym.OpaqueInt64(1<<32+9)) == 9 && int32(sym.OpaqueInt64(1<<31)) == -(1<<31))
	sym.Assert("S00.u32-wrap", uint32(sym.OpaqueUint64(1<<32+1)) == 1)
	sym.Assert("S00.mul-wrap", sym.OpaqueUint64(1<<62)*4 == 0 && sym.OpaqueInt64(1<<62)*2 == -(1<<63))
	sym.Assert("S00.shift", sym.OpaqueUint64(5)<<2 == 20 && sym.OpaqueUint64(20)>>2 == 5 && sym.OpaqueInt64(-8)>>1 == -4)
	sym.Assert("S00.bitand", sym.OpaqueUint64(0b1111)&0b0101 == 0b0101 && sym.OpaqueUint64(6)|1 == 7 && sym.OpaqueUint64(6)^3 == 5)
	sym.Assert("S00.float", float32(sym.OpaqueInt64(8000)) >= 8000.0 && float32(sym.OpaqueInt64(7999)) < 8000.0)
	sym.Cover("S00.ints-done")
}

func Ob_S00_Dec() {
	d := sdk.NewDecWithPrec(sym.OpaqueInt64(1), 6) // 0.000001
	x := d.MulInt64(sym.OpaqueInt64(1000001))      // 1.000001
	c, frac := sdk.NewDecCoinFromDec("sao", x).TruncateDecimal()
	sym.Assert("S00.dec-truncate", c.Amount.Int64() == 1 && !frac.IsZero())
	sym.Assert("S00.dec-mul-trunc", sdk.NewDecWithPrec(sym.OpaqueInt64(15), 1).Mul(sdk.NewDecWithPrec(sym.OpaqueInt64(15), 1)).Equal(sdk.NewDecWithPrec(225, 2)))
	third := sdk.NewDec(sym.OpaqueInt64(1)).Quo(sdk.NewDec(3))
	sym.Assert("S00.dec-quo-rounds", third.Equal(sdk.MustNewDecFromStr("0.333333333333333333")))
	two3 := sdk.NewDec(sym.OpaqueInt64(2)).Quo(sdk.NewDec(3))
	sym.Assert("S00.dec-quo-rounds-half-up", two3.Equal(sdk.MustNewDecFromStr("0.666666666666666667")))
	sym.Assert("S00.dec-quoint64", sdk.NewDec(sym.OpaqueInt64(7)).QuoInt64(2).Equal(sdk.MustNewDecFromStr("3.5")))
	sym.Assert("S00.dec-truncint", sdk.MustNewDecFromStr("2.999999999999999999").Add(sdk.NewDec(sym.OpaqueInt64(0))).TruncateInt().Int64() == 2)
	sym.Assert("S00.dec-ceil", sdk.NewDecWithPrec(sym.OpaqueInt64(21), 1).Ceil().Equal(sdk.NewDec(3)))
	sym.Assert("S00.dec-cmp", sdk.NewDec(sym.OpaqueInt64(2)).GT(sdk.NewDec(1)) && sdk.NewDec(sym.OpaqueInt64(2)).LTE(sdk.NewDec(2)) && sdk.NewDec(sym.OpaqueInt64(-1)).IsNegative())
	sym.Assert("S00.dec-sub", sdk.NewDec(sym.OpaqueInt64(5)).Sub(sdk.NewDec(7)).Equal(sdk.NewDec(-2)))
	// (NewDecFromStr of a non-constant string is an uninterpreted validity predicate plus value - not tested here;
	// what is used is the round trip of Dec.String, below)
	p, err := sdk.NewDecFromStr(sdk.NewDecWithPrec(sym.OpaqueInt64(25), 2).String())
	sym.Assert("S00.dec-string-roundtrip", err == nil && p.MulInt64(4).Equal(sdk.OneDec()))
	sym.Cover("S00.dec-done")
}

func Ob_S00_Int() {
	a := sdk.NewInt(sym.OpaqueInt64(1 << 40))
	sym.Assert("S00.int-mul", a.Mul(a).Equal(sdk.NewIntFromUint64(1<<63).MulRaw(1<<17)))
	sym.Assert("S00.int-quo", sdk.NewInt(sym.OpaqueInt64(-7)).QuoRaw(2).Int64() == -3 && sdk.NewInt(sym.OpaqueInt64(7)).Quo(sdk.NewInt(2)).Int64() == 3)
	sym.Assert("S00.int-cmp", a.GT(sdk.ZeroInt()) && a.GTE(a) && !a.LT(a) && sdk.NewInt(sym.OpaqueInt64(0)).IsZero())
	c := sdk.NewCoin("sao", sdk.NewInt(sym.OpaqueInt64(5)))
	sym.Assert("S00.coin", c.Add(sdk.NewInt64Coin("sao", 2)).Amount.Int64() == 7 && c.IsGTE(sdk.NewInt64Coin("sao", 5)) && !c.IsZero() && c.Sub(sdk.NewInt64Coin("sao", 5)).IsZero())
	sym.Assert("S00.int-uint64", sdk.NewInt(sym.OpaqueInt64(9)).Uint64() == 9)
	sym.Cover("S00.int-done")
}

func Ob_S00_Bytes() {
	bz := make([]byte, 8)
	binary.BigEndian.PutUint64(bz, sym.OpaqueUint64(0x0102030405060708))
	sym.Assert("S00.be64", bz[0] == 1 && bz[7] == 8 && binary.BigEndian.Uint64(bz) == 0x0102030405060708)
	k := append([]byte("Order/value/"), bz...)
	sym.Assert("S00.key-len", len(k) == 20 && k[12] == 1)
	sym.Assert("S00.bytes-string", string([]byte(sym.OpaqueString("abc"))) == "abc" && len([]byte(sym.OpaqueString("abc"))) == 3)
	sym.Cover("S00.bytes-done")
}

func Ob_S00_Patterns() {
	// (the CAIP-10 account pattern on a free string is an uninterpreted predicate implying the shape of the three
	// parts - an over-approximation, so not testable as an equivalence; simple patterns are exact SMT regular expressions)
	id1, _ := regexp.MatchString("^[a-zA-Z0-9._-]+$", sym.OpaqueString("z6Mk-a.b_c"))
	id2, _ := regexp.MatchString("^[a-zA-Z0-9._-]+$", sym.OpaqueString("a/b"))
	id3, _ := regexp.MatchString("^[a-z]{2,3}:[0-9]+$", sym.OpaqueString("ab:12"))
	id4, _ := regexp.MatchString("^[a-z]{2,3}:[0-9]+$", sym.OpaqueString("abcd:12"))
	sym.Assert("S00.patterns", id1 && !id2 && id3 && !id4)
	// json.Marshal of a string map: sorted by key, whatever the insertion (and iteration) order
	m1 := map[string]string{sym.OpaqueString("b"): "2", sym.OpaqueString("a"): "1"}
	m2 := map[string]string{sym.OpaqueString("a"): "1", sym.OpaqueString("b"): "2"}
	j1, e1 := json.Marshal(m1)
	j2, e2 := json.Marshal(m2)
	sym.Assert("S00.json-order-insensitive", e1 == nil && e2 == nil && string(j1) == string(j2))
	sym.Assert("S00.json-shape", strings.HasPrefix(string(j1), "{\"") && strings.HasSuffix(string(j1), "\"}"))
	sym.Cover("S00.patterns-done")
}

func Ob_S00_Store() {
	w := NewWorld()
	id := sym.OpaqueUint64(7)
	_, had := w.Order.GetShard(w.Ctx, id)
	w.Order.RemoveShard(w.Ctx, id)
	_, f0 := w.Order.GetShard(w.Ctx, id)
	sym.Assert("S00.store-delete", !f0)
	oc := w.Order.GetOrderCount(w.Ctx)
	sym.Assume(oc < 1<<60) // (at 2^64-1 the counter wraps to 0, which reads back as 1 - the engine models that)
	w.Order.SetOrderCount(w.Ctx, oc+1)
	sym.Assert("S00.store-raw-roundtrip", w.Order.GetOrderCount(w.Ctx) == oc+1)
	_ = had
	sym.Cover("S00.store-done")
}
