//go:build verif

package zzverif

import (
	"strings"

	nodetypes "github.com/SaoNetwork/sao/x/node/types"
	saotypes "github.com/SaoNetwork/sao/x/sao/types"
	"github.com/SaoNetwork/sao/zzverif/sym"
	sdk "github.com/cosmos/cosmos-sdk/types"
)

// C19: MsgReportFaults — only registered nodes that are designated fishmen file reports; a report is recorded
// only for an existing, unexpired shard that the accused provider holds for the named order and data model;
// nothing but fault records is written and no coin moves.
func Ob_C19_ReportFaults() {
	w := NewWorld()
	var msg saotypes.MsgReportFaults
	sym.Fill("msg", &msg)
	sym.Assume(len(msg.Faults) == 1 && msg.Faults[0] != nil)
	f := *msg.Faults[0]
	reporter, isNode := w.Node.GetNode(w.Ctx, msg.Creator)
	fishmen := w.Node.FishmenInfo(w.Ctx)
	snap, nT := w.Snapshot(), w.TransferCount()
	var err error
	panicked, _ := sym.Catch(func() { _, err = w.SaoMsg.ReportFaults(sdk.WrapSDKContext(w.Ctx), &msg) })
	if panicked || err != nil {
		return
	}
	sym.Cover("C19.report-returns")
	sym.Assert("C19.report-no-transfer", w.TransferCount() == nT)
	sym.Assert("C19.report-frame", !w.WrittenAny(snap, "order") && !w.WrittenAny(snap, "model") && !w.WrittenAny(snap, "market") &&
		!w.WrittenAny(snap, "did") && !w.WrittenAny(snap, "sao") &&
		!w.WrittenOutside(snap, "node", nodetypes.FaultIdKeyPrefix, nodetypes.FaultKeyPrefix))
	if w.WrittenAny(snap, "node") {
		sym.Cover("C19.report-recorded")
		sym.Assert("C19.reporter-is-fishman-node", isNode && strings.Contains(fishmen, reporter.Creator) && reporter.Creator == msg.Creator)
		// validity of the recorded report
		_, hasMeta := w.Model.GetMetadata(w.Ctx, f.DataId)
		o, hasOrder := w.Order.GetOrder(w.Ctx, f.OrderId)
		sym.Assert("C19.report-names-existing-model-and-order", hasMeta && hasOrder && o.DataId == f.DataId && msg.Provider == f.Provider)
		sh, hasShard := w.Order.GetShard(w.Ctx, f.ShardId)
		sym.Assert("C19.report-names-live-shard-of-provider", hasShard && inListU64(f.ShardId, o.Shards) && sh.Sp == f.Provider &&
			sh.CreatedAt+sh.Duration > uint64(w.Height()))
	}
}

// C19 MsgReportFaults with two entries: every entry is validated on its own - a well-formed first entry does not
// wave a second one through (no more fault records are written than entries pass the reference validity check).
func Ob_C19_ReportFaults_TwoEntries() {
	w := NewWorld()
	sym.SetBound(".Faults", 2)
	sym.SetBound("Order.Shards", 1)
	var msg saotypes.MsgReportFaults
	sym.Fill("msg", &msg)
	sym.Assume(len(msg.Faults) == 2 && msg.Faults[0] != nil && msg.Faults[1] != nil)
	sym.Assume(msg.Faults[0].ShardId != msg.Faults[1].ShardId)
	valid := 0
	for _, f := range msg.Faults {
		_, hasMeta := w.Model.GetMetadata(w.Ctx, f.DataId)
		o, hasOrder := w.Order.GetOrder(w.Ctx, f.OrderId)
		sh, hasShard := w.Order.GetShard(w.Ctx, f.ShardId)
		if hasMeta && hasOrder && hasShard && o.DataId == f.DataId && msg.Provider == f.Provider && inListU64(f.ShardId, o.Shards) &&
			sh.Sp == f.Provider && sh.CreatedAt+sh.Duration > uint64(w.Height()) {
			valid++
		}
	}
	snap := w.Snapshot()
	var err error
	panicked, _ := sym.Catch(func() { _, err = w.SaoMsg.ReportFaults(sdk.WrapSDKContext(w.Ctx), &msg) })
	if panicked || err != nil {
		return
	}
	sym.Cover("C19.report-two-returns")
	written := len(w.WrittenString(snap, "node", nodetypes.FaultIdKeyPrefix, ""))
	sym.Assert("C19.no-more-records-than-valid-entries", written <= valid)
	if valid == 1 && written == 1 {
		sym.Cover("C19.one-of-two-recorded")
	}
}
