//go:build verif

package zzverif

import (
	markettypes "github.com/SaoNetwork/sao/x/market/types"
	modelkeeper "github.com/SaoNetwork/sao/x/model/keeper"
	modeltypes "github.com/SaoNetwork/sao/x/model/types"
	ordertypes "github.com/SaoNetwork/sao/x/order/types"
	"github.com/SaoNetwork/sao/zzverif/sym"
	sdk "github.com/cosmos/cosmos-sdk/types"
)

// C04 / T-settle-terminate: Withdraw refunds, out of the market escrow into the order escrow, exactly
//   amount - price*size*replica*duration                       (rounding surplus of the charge)
//   + price*size*(end - now)   for every completed shard the order pays for (unearned income)
//   + price*size*order.Duration for every shard still waiting  (never stored)
// truncated to whole coins, and stops the income of the completed shards.
func Ob_C04C14_Withdraw() {
	w := NewWorld()
	sym.SetBound("Order.Shards", 2)
	var o ordertypes.Order
	sym.Fill("order", &o)
	sym.Assume(InvOrder(o) && o.Amount.Amount.IsPositive() && o.Replica >= 1 && o.Replica <= 4 && len(o.Shards) >= 1)
	expected := sdk.NewDecFromInt(o.Amount.Amount).Sub(o.UnitPrice.Amount.MulInt64(int64(o.Size_)).MulInt64(int64(o.Replica)).MulInt64(int64(o.Duration)))
	for i, id := range o.Shards {
		for j := 0; j < i; j++ {
			sym.Assume(o.Shards[j] != id)
		}
		s, f := w.Order.GetShard(w.Ctx, id)
		if !f || s.OrderId > o.Id {
			continue
		}
		rate := o.UnitPrice.Amount.MulInt64(int64(s.Size_))
		if s.Status == ordertypes.ShardCompleted && s.OrderId == o.Id {
			wk, hw := w.Market.GetWorker(w.Ctx, workerName(s.Sp))
			sym.Assume(hw && wk.LastRewardAt <= w.Height() && int64(s.CreatedAt+s.Duration) >= w.Height())
			expected = expected.Add(rate.MulInt64(int64(s.CreatedAt+s.Duration) - w.Height()))
		} else if s.Status == ordertypes.ShardWaiting {
			expected = expected.Add(rate.MulInt64(int64(o.Duration)))
		}
	}
	sym.Assume(!expected.IsNegative())
	// workers of the providers whose shard does NOT serve this order (another order's shard that this order only
	// lists, e.g. a queued renewal): their bytes and income rate must not move
	type wsnap struct {
		name string
		w    markettypes.Worker
		had  bool
	}
	var bystanders []wsnap
	for _, id := range o.Shards {
		s, f := w.Order.GetShard(w.Ctx, id)
		if f && !(s.Status == ordertypes.ShardCompleted && s.OrderId == o.Id) {
			serving := false
			for _, id2 := range o.Shards {
				s2, f2 := w.Order.GetShard(w.Ctx, id2)
				serving = sym.Or(serving, sym.And(f2, s2.Sp == s.Sp, s2.Status == ordertypes.ShardCompleted, s2.OrderId == o.Id))
			}
			if !serving {
				wk, hw := w.Market.GetWorker(w.Ctx, workerName(s.Sp))
				bystanders = append(bystanders, wsnap{workerName(s.Sp), wk, hw})
			}
		}
	}
	nT := w.TransferCount()
	var refund sdk.Coin
	var err error
	panicked, _ := sym.Catch(func() { refund, err = w.Market.Withdraw(w.Ctx, o) })
	if panicked || err != nil {
		return
	}
	sym.Cover("C04.withdraw")
	sym.Assert("C04.withdraw-refund-formula", refund.Amount.Equal(expected.TruncateInt()))
	moved := sdk.ZeroInt()
	for _, t := range w.TransfersSince(nT) {
		sym.Assert("C04.withdraw-direction", t.From == modAddr(markettypes.ModuleName) && t.To == modAddr(ordertypes.ModuleName))
		moved = moved.Add(newInt(t.Amt))
	}
	sym.Assert("C04.withdraw-moves-refund", moved.Equal(refund.Amount))
	for _, b := range bystanders {
		wk, hw := w.Market.GetWorker(w.Ctx, b.name)
		sym.Assert("C14.withdraw-releases-only-own-shards", hw == b.had && (!hw || (wk.Storage == b.w.Storage && wk.IncomePerSecond.Amount.Equal(b.w.IncomePerSecond.Amount))))
	}
}

// C16 / T-history force-push: operation 2 replaces only the latest history entry.
func Ob_C16_UpdateMeta_ForcePush() {
	w := NewWorld()
	sym.SetBound("Metadata.Commits", 2)
	sym.SetBound("Metadata.Orders", 2)
	if sym.Tier() == "quick" {
		sym.SetBound("Order.Shards", 0)
	}
	var o ordertypes.Order
	sym.Fill("order", &o)
	sym.Assume(o.Operation == 2 && len(o.Shards) == 0)
	m0, found := w.Model.GetMetadata(w.Ctx, o.DataId)
	sym.Assume(found && len(m0.Commits) >= 1)
	var err error
	panicked, _ := sym.Catch(func() { err = w.Model.UpdateMeta(w.Ctx, o) })
	if panicked || err != nil {
		return
	}
	sym.Cover("C16.forcepush")
	m1, _ := w.Model.GetMetadata(w.Ctx, o.DataId)
	sym.Assert("C16.forcepush-replaces-last-only", len(m1.Commits) == len(m0.Commits) && m1.Commit == o.Commit && m1.Status == modeltypes.MetaComplete)
	for i := 0; i+1 < len(m0.Commits); i++ {
		sym.Assert("C16.forcepush-keeps-older-history", i < len(m1.Commits) && m1.Commits[i] == m0.Commits[i])
	}
	sym.Assert("C16.forcepush-records-order", len(m1.Orders) >= 1 && m1.Orders[len(m1.Orders)-1] == o.Id)
	_ = modelkeeper.CommitFromVersion
}
