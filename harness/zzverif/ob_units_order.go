//go:build verif

package zzverif

import (
	ordertypes "github.com/SaoNetwork/sao/x/order/types"
	"github.com/SaoNetwork/sao/zzverif/sym"
)

// payerOf: payment address of PaymentDid if set, else of Owner (what RefundOrder / Store use).
func payerOf(w *World, o ordertypes.Order) (string, bool) {
	did := o.Owner
	if o.PaymentDid != "" {
		did = o.PaymentDid
	}
	pa, found := w.Did.GetPaymentAddress(w.Ctx, did)
	return pa.Address, found
}

// C05/C04 RefundOrder: one transfer order-escrow -> payer of exactly Order.Amount, or an error and nothing.
func Ob_C04C05_RefundOrder() {
	w := NewWorld()
	id := sym.Uint64("orderId")
	o, found := w.Order.GetOrder(w.Ctx, id)
	payer, hasPayer := payerOf(w, o)
	snap, nT := w.Snapshot(), w.TransferCount()
	err := w.Order.RefundOrder(w.Ctx, id)
	ts := w.TransfersSince(nT)
	sym.Assert("C05.refund-writes-nothing", !w.WrittenAny(snap, "order") && !w.WrittenAny(snap, "did"))
	if err != nil {
		sym.Assert("C05.refund-error-moves-nothing", len(ts) == 0)
		return
	}
	sym.Cover("C05.refund")
	sym.Assert("C05.refund-needs-order-and-payer", found && hasPayer)
	sym.Assert("C05.refund-one-transfer", len(ts) == 1)
	if len(ts) == 1 {
		sym.Assert("C05.refund-exact", ts[0].From == modAddr(ordertypes.ModuleName) && ts[0].To == payer &&
			ts[0].Amt.Cmp(o.Amount.Amount.BigInt()) == 0 && ts[0].Denom == o.Amount.Denom)
	}
}

// C16/C13 NewOrder: fresh id, one shard per provider, each shard lists the order and is listed by it.
func Ob_C12C13C16_NewOrder() {
	w := NewWorld()
	var o ordertypes.Order
	sym.Fill("order", &o)
	sym.Assume(len(o.Shards) == 0)
	nsp := sym.Int("nsp")
	sym.Assume(nsp >= 0 && nsp <= 2)
	n := sym.ConcreteInt(nsp, 0, 2)
	sps := make([]string, 0)
	for i := 0; i < n; i++ {
		sps = append(sps, sym.String("sp"))
	}
	oc, sc := w.Order.GetOrderCount(w.Ctx), w.Order.GetShardCount(w.Ctx)
	sym.Assume(oc < 1<<60 && sc < 1<<60)
	id, err := w.Order.NewOrder(w.Ctx, &o, sps)
	sym.Assert("C16.neworder-no-error", err == nil)
	sym.Cover("C16.neworder")
	sym.Assert("C16.neworder-id", id == oc && o.Id == oc)
	got, found := w.Order.GetOrder(w.Ctx, id)
	sym.Assert("C13.neworder-stored", found && got.Id == id && len(got.Shards) == n)
	if found && len(got.Shards) == n {
		for i := 0; i < n; i++ {
			sh, sf := w.Order.GetShard(w.Ctx, got.Shards[i])
			sym.Assert("C13.neworder-shard-exists", sf && sh.OrderId == id && sh.Sp == sps[i] && sh.Status == ordertypes.ShardWaiting)
			sym.Assert("C16.neworder-shard-id-fresh", got.Shards[i] == sc+uint64(i))
		}
	}
	sym.Assert("C16.neworder-counters", w.Order.GetOrderCount(w.Ctx) == oc+1 && w.Order.GetShardCount(w.Ctx) == sc+uint64(n))
	if n > 0 {
		sym.Assert("C12.neworder-dataready", got.Status == ordertypes.OrderDataReady)
	}
}
