//go:build verif

package zzverif

import (
	didtypes "github.com/SaoNetwork/sao/x/did/types"
	markettypes "github.com/SaoNetwork/sao/x/market/types"
	nodemodule "github.com/SaoNetwork/sao/x/node"
	nodetypes "github.com/SaoNetwork/sao/x/node/types"
	ordertypes "github.com/SaoNetwork/sao/x/order/types"
	saotypes "github.com/SaoNetwork/sao/x/sao/types"
	"github.com/SaoNetwork/sao/zzverif/sym"
	sdk "github.com/cosmos/cosmos-sdk/types"
)

// ---- C06 escrow solvency in delta form (DESIGN §4 Σ-obligations): for every entry point that moves coins
// or rewrites a liability record, the coins an escrow account receives cover the growth of what the records
// that entry point touched say the account owes:  Δbank(M) >= Δliab(M).  Summed over a history this is
// bank(M) >= liab(M) at every block boundary. The liabilities are the chain's own records:
//
//	order : Amount of every order that exists, is not a renewal (paid straight to the market) and is not completed
//	node  : per provider  storage pledge + shard pledge - recorded debt  (+ the reward already credited)
//	did   : DidBalances
//
// "no entitled payout fails for lack of funds": from a state where the account covers the touched records,
// the payout's SendCoins* does not take the insufficient-funds branch.

// netInto: coins (world denomination) the module account received minus coins it paid since transfer nT.
func netInto(w *World, nT int, module string) sdk.Int {
	n := sdk.ZeroInt()
	for _, t := range w.TransfersSince(nT) {
		if t.Denom != WorldDenom {
			continue
		}
		if t.To == modAddr(module) {
			n = n.Add(sdk.NewIntFromBigInt(t.Amt))
		}
		if t.From == modAddr(module) {
			n = n.Sub(sdk.NewIntFromBigInt(t.Amt))
		}
	}
	return n
}

func orderLiab(o ordertypes.Order, found bool) sdk.Int {
	if !found || o.Operation == 3 || o.Status == ordertypes.OrderCompleted {
		return sdk.ZeroInt()
	}
	return o.Amount.Amount
}

// orderLiabDelta: growth of the order escrow's liabilities over the order records written since snap.
func orderLiabDelta(w *World, snap int) sdk.Int {
	d := sdk.ZeroInt()
	for _, id := range w.WrittenUint64(snap, "order", ordertypes.OrderKey) {
		var o0 ordertypes.Order
		var f0 bool
		w.At(snap, func() { o0, f0 = w.Order.GetOrder(w.Ctx, id) })
		o1, f1 := w.Order.GetOrder(w.Ctx, id)
		d = d.Add(orderLiab(o1, f1)).Sub(orderLiab(o0, f0))
	}
	return d
}

// collateral a provider's records say the node escrow holds for it
func nodeCollateral(p nodetypes.Pledge, hasP bool, d nodetypes.PledgeDebt, hasD bool) sdk.Int {
	c := sdk.ZeroInt()
	if hasP {
		c = c.Add(p.TotalStoragePledged.Amount).Add(p.TotalShardPledged.Amount)
	}
	if hasD {
		c = c.Sub(d.Debt.Amount)
	}
	return c
}

func nodeCollateralNow(w *World, sp string) sdk.Int {
	p, hp := w.Node.GetPledge(w.Ctx, sp)
	d, hd := w.Node.GetPledgeDebt(w.Ctx, sp)
	return nodeCollateral(p, hp, d, hd)
}

// ---- order escrow

// RefundOrder / Cancel: the order leaves together with exactly its amount, and the refund cannot fail for
// lack of funds when the escrow covers the order.
func Ob_C06_Cancel_OrderEscrow() {
	w := NewWorld()
	sym.SetBound("Order.Shards", 1)
	var msg saotypes.MsgCancel
	sym.Fill("msg", &msg)
	o, found := w.Order.GetOrder(w.Ctx, msg.OrderId)
	sym.Assume(found)
	snap, nT := w.Snapshot(), w.TransferCount()
	var err error
	panicked, _ := sym.Catch(func() { _, err = w.SaoMsg.Cancel(sdk.WrapSDKContext(w.Ctx), &msg) })
	if panicked || err != nil {
		return
	}
	sym.Cover("C06.cancel-succeeds")
	sym.Assert("C06.order-escrow-covers-after-cancel", netInto(w, nT, ordertypes.ModuleName).GTE(orderLiabDelta(w, snap)))
	_ = o
}

func Ob_C06_RefundOrder_Funded() {
	w := NewWorld()
	id := sym.Uint64("orderId")
	o, found := w.Order.GetOrder(w.Ctx, id)
	payer, hasPayer := payerOf(w, o)
	sym.Assume(found && hasPayer && o.Amount.Amount.IsPositive() && o.Status != ordertypes.OrderCompleted && o.Operation != 3)
	sym.Assume(!w.Blocked(payer))
	// solvency instance: the escrow covers this order
	sym.Assume(w.Bal(modAddr(ordertypes.ModuleName), WorldDenom).Cmp(o.Amount.Amount.BigInt()) >= 0)
	var err error
	panicked, _ := sym.Catch(func() { err = w.Order.RefundOrder(w.Ctx, id) })
	sym.Cover("C06.refund-entitled")
	sym.Assert("C06.entitled-refund-cannot-fail", !panicked && err == nil)
}

// Deposit (MsgComplete of the last shard): the order's money moves to the market exactly when the order
// stops being an order-escrow liability.
func Ob_C06_Complete_Escrows() {
	w := NewWorld()
	var msg saotypes.MsgComplete
	sym.Fill("msg", &msg)
	o, found := w.Order.GetOrder(w.Ctx, msg.OrderId)
	sym.Assume(found && o.Operation != 3)
	sym.SetBound("Shard.RenewInfos", 0)
	sym.SetBound("Metadata.Orders", 0)
	sym.SetBound("ExpiredData.Data", 0)
	if sym.Tier() == "quick" {
		// the completion that deposits: the order is not completed yet (a later replica of a completed order moves no
		// order money; its collateral side is Ob_C06_ShardPledge_NodeEscrow's subject)
		sym.Assume(o.Operation != 2 && o.Status != ordertypes.OrderCompleted)
		// the provider signs itself and has no node record to credit reputation to (authorisation is C10's subject)
		_, hasNode := w.Node.GetNode(w.Ctx, msg.Provider)
		sym.Assume(msg.Creator == msg.Provider && !hasNode && o.Replica >= 1 && o.Replica <= 2)
		for _, id := range o.Shards {
			s, f := w.Order.GetShard(w.Ctx, id)
			sym.Assume(!f || s.Status != ordertypes.ShardMigrating)
		}
	}
	snap, nT := w.Snapshot(), w.TransferCount()
	var err error
	panicked, _ := sym.Catch(func() { _, err = w.SaoMsg.Complete(sdk.WrapSDKContext(w.Ctx), &msg) })
	if panicked || err != nil {
		return
	}
	sym.Cover("C06.complete-succeeds")
	sym.Assert("C06.order-escrow-covers-after-complete", netInto(w, nT, ordertypes.ModuleName).GTE(orderLiabDelta(w, snap)))
	// the provider's collateral record grows by no more than what the node escrow received plus recorded debt
	sp := msg.Provider
	var c0 sdk.Int
	w.At(snap, func() { c0 = nodeCollateralNow(w, sp) })
	sym.Assert("C06.node-escrow-covers-after-complete", netInto(w, nT, nodetypes.ModuleName).GTE(nodeCollateralNow(w, sp).Sub(c0)))
	o1, f1 := w.Order.GetOrder(w.Ctx, o.Id)
	if f1 && o1.Status == ordertypes.OrderCompleted && o.Status != ordertypes.OrderCompleted {
		sym.Cover("C06.complete-deposits")
		sym.Assert("C06.market-receives-deposit", netInto(w, nT, markettypes.ModuleName).Equal(o.Amount.Amount))
	}
}

// ---- did escrow

// A refund parked for a DID without payment address: the coins arrive in the did account, the record grows by
// no more than that, and the parking itself cannot fail when the paying module holds the amount.
func Ob_C06C04_DidBalances_Park() {
	w := NewWorld()
	did := sym.String("did")
	amt := sdk.NewCoin(WorldDenom, sdk.NewIntFromBigInt(sym.NonNegBig("amount")))
	b0, had := w.Did.GetDidBalances(w.Ctx, did)
	sym.Assume(!had || b0.Balance.Denom == WorldDenom)
	sym.Assume(w.Bal(modAddr(ordertypes.ModuleName), WorldDenom).Cmp(amt.Amount.BigInt()) >= 0)
	nT := w.TransferCount()
	var err error
	panicked, _ := sym.Catch(func() {
		err = w.Did.SendCoinsFromModuleToDidBalances(w.Ctx, ordertypes.ModuleName, did, amt)
	})
	sym.Cover("C06.park-called")
	sym.Assert("C06.parking-a-refund-cannot-fail", !panicked && err == nil)
	if panicked || err != nil {
		return
	}
	b1, has := w.Did.GetDidBalances(w.Ctx, did)
	rec0, rec1 := sdk.ZeroInt(), sdk.ZeroInt()
	if had {
		rec0 = b0.Balance.Amount
	}
	if has {
		rec1 = b1.Balance.Amount
	}
	sym.Assert("C06.did-escrow-covers-parked", netInto(w, nT, didtypes.ModuleName).GTE(rec1.Sub(rec0)))
	sym.Assert("C04.parked-refund-recorded", rec1.Sub(rec0).Equal(amt.Amount))
}

// ---- node escrow

func nodeEscrowAfter(w *World, snap, nT int, sp, label string) {
	var c0 sdk.Int
	w.At(snap, func() { c0 = nodeCollateralNow(w, sp) })
	sym.Assert(label, netInto(w, nT, nodetypes.ModuleName).GTE(nodeCollateralNow(w, sp).Sub(c0)))
}

func Ob_C06_AddVstorage_NodeEscrow() {
	w := NewWorld()
	concreteNodeParams(w, 1000000, 1000000000000)
	var msg nodetypes.MsgAddVstorage
	sym.Fill("msg", &msg)
	snap, nT := w.Snapshot(), w.TransferCount()
	var err error
	panicked, _ := sym.Catch(func() { _, err = w.NodeMsg.AddVstorage(sdk.WrapSDKContext(w.Ctx), &msg) })
	if panicked || err != nil {
		return
	}
	sym.Cover("C06.addvstorage-succeeds")
	nodeEscrowAfter(w, snap, nT, msg.Creator, "C06.node-escrow-covers-after-addvstorage")
}

func Ob_C06_RemoveVstorage_NodeEscrow() {
	w := NewWorld()
	concreteNodeParams(w, 1000000, 1000000000000)
	var msg nodetypes.MsgRemoveVstorage
	sym.Fill("msg", &msg)
	snap, nT := w.Snapshot(), w.TransferCount()
	var err error
	panicked, _ := sym.Catch(func() { _, err = w.NodeMsg.RemoveVstorage(sdk.WrapSDKContext(w.Ctx), &msg) })
	if panicked || err != nil {
		return
	}
	sym.Cover("C06.removevstorage-succeeds")
	nodeEscrowAfter(w, snap, nT, msg.Creator, "C06.node-escrow-covers-after-removevstorage")
}

// ClaimReward: block reward leaves the node escrow, worker income leaves the market; rewards withheld to repay
// a pledge debt turn booked-but-unpaid collateral into paid collateral, so the node escrow must hold them.
func Ob_C06_ClaimReward_Escrows() {
	w := NewWorld()
	concreteNodeParams(w, 1000000, 1000000000000)
	var msg nodetypes.MsgClaimReward
	sym.Fill("msg", &msg)
	p0, had := w.Node.GetPledge(w.Ctx, msg.Creator)
	wk0, hadW := w.Market.GetWorker(w.Ctx, WorldDenom+"-"+msg.Creator)
	snap, nT := w.Snapshot(), w.TransferCount()
	var err error
	panicked, _ := sym.Catch(func() { _, err = w.NodeMsg.ClaimReward(sdk.WrapSDKContext(w.Ctx), &msg) })
	if panicked || err != nil {
		return
	}
	sym.Cover("C06.claimreward-succeeds")
	p1, _ := w.Node.GetPledge(w.Ctx, msg.Creator)
	// credited block reward (whole coins) that left the provider's record
	var c0 sdk.Int
	w.At(snap, func() { c0 = nodeCollateralNow(w, msg.Creator) })
	dCollateral := nodeCollateralNow(w, msg.Creator).Sub(c0)
	// the reward record may only shrink by whole coins that were paid out or withheld against the debt
	sym.Assert("C06.node-escrow-covers-after-claim",
		sdk.NewDecFromInt(netInto(w, nT, nodetypes.ModuleName)).GTE(sdk.NewDecFromInt(dCollateral).Add(p1.Reward.Amount).Sub(settledReward(w, snap, p0, had))))
	_, _ = wk0, hadW
}

// settledReward: the provider's reward record after its pending block reward is settled (what ShardRelease(nil)
// computes first), evaluated on the pre-state.
func settledReward(w *World, snap int, p0 nodetypes.Pledge, had bool) sdk.Dec {
	if !had {
		return sdk.ZeroDec()
	}
	if p0.TotalStorage <= 0 {
		return p0.Reward.Amount
	}
	var pool nodetypes.Pool
	var hasPool bool
	w.At(snap, func() { pool, hasPool = w.Node.GetPool(w.Ctx) })
	if !hasPool {
		return p0.Reward.Amount // ShardRelease(nil) gives up before settling
	}
	pending := pool.AccRewardPerByte.Amount.MulInt64(p0.TotalStorage).Sub(p0.RewardDebt.Amount)
	return p0.Reward.Amount.Add(pending)
}

// ShardPledge / ShardRelease: the collateral record of the shard's provider moves with the coins.
func Ob_C06_ShardPledge_NodeEscrow() {
	w := NewWorld()
	var s ordertypes.Shard
	var price sdk.DecCoin
	sym.Fill("shard", &s)
	sym.Fill("unitPrice", &price)
	sym.Assume(InvShard(s) && nonNegDecCoin(price) && price.Denom == WorldDenom)
	snap, nT := w.Snapshot(), w.TransferCount()
	var err error
	panicked, _ := sym.Catch(func() { err = w.Node.ShardPledge(w.Ctx, &s, price) })
	if panicked || err != nil {
		return
	}
	sym.Cover("C06.shardpledge")
	nodeEscrowAfter(w, snap, nT, s.Sp, "C06.node-escrow-covers-after-shardpledge")
}

func Ob_C06_ShardRelease_NodeEscrow() {
	w := NewWorld()
	var s ordertypes.Shard
	sym.Fill("shard", &s)
	sym.Assume(InvShard(s))
	p0, had := w.Node.GetPledge(w.Ctx, s.Sp)
	_, hasPool := w.Node.GetPool(w.Ctx)
	sym.Assume(!had || (p0.TotalShardPledged.Amount.GTE(s.Pledge.Amount) && p0.UsedStorage >= int64(s.Size_)))
	// solvency instance: the node escrow holds the provider's paid-in collateral
	var c0 sdk.Int
	c0 = nodeCollateralNow(w, s.Sp)
	sym.Assume(w.Bal(modAddr(nodetypes.ModuleName), WorldDenom).Cmp(c0.BigInt()) >= 0)
	sym.Assume(!w.Blocked(s.Sp))
	snap, nT := w.Snapshot(), w.TransferCount()
	var err error
	panicked, _ := sym.Catch(func() { err = w.Node.ShardRelease(w.Ctx, sdk.MustAccAddressFromBech32(s.Sp), &s) })
	sym.Cover("C06.shardrelease-called")
	// the debt never exceeds the booked collateral (D1), so the escrow covers every release
	d, hd := w.Node.GetPledgeDebt(w.Ctx, s.Sp)
	_ = d
	if had && hasPool && !hd {
		sym.Assert("C06.entitled-release-cannot-fail", !panicked && err == nil)
	}
	if panicked || err != nil {
		return
	}
	sym.Cover("C06.shardrelease")
	nodeEscrowAfter(w, snap, nT, s.Sp, "C06.node-escrow-covers-after-shardrelease")
}

// BeginBlocker: what all providers together can claim grows by no more than what was minted into the node escrow.
func Ob_C06_BeginBlocker_RewardCovered() {
	w := NewWorld()
	concreteNodeParams(w, 1000000, 1000000000000)
	pool0, found := w.Node.GetPool(w.Ctx)
	// the halving age is a float logarithm of the cumulative counter: three tabled points as in the C08 obligation
	tr := []int64{0, 100000000000000, 300000000000000}
	k := sym.Int("totalRewardCase")
	sym.Assume(k >= 0 && k <= 2)
	k = sym.ConcreteInt(k, 0, 2)
	if found {
		pool0.TotalReward = sdk.NewInt64Coin(WorldDenom, tr[k])
		w.Node.SetPool(w.Ctx, pool0)
	}
	sym.Assume(!found || (pool0.TotalStorage > 0 && pool0.TotalPledged.Amount.LT(sdk.NewInt(1<<60))))
	nT := w.TransferCount()
	nodemodule.BeginBlocker(w.Ctx, w.Node)
	sym.Cover("C06.beginblocker-returns")
	if !found {
		return
	}
	pool1, _ := w.Node.GetPool(w.Ctx)
	inc := pool1.AccRewardPerByte.Amount.Sub(pool0.AccRewardPerByte.Amount)
	sym.Assert("C06.minted-covers-new-claims", inc.MulInt64(pool0.TotalStorage).LTE(sdk.NewDecFromInt(netInto(w, nT, nodetypes.ModuleName))))
	sym.Assert("C06.beginblocker-keeps-capacity-total", pool1.TotalStorage == pool0.TotalStorage)
}

// Terminate settlement (model keeper TerminateOrder): the refund the market hands to the order escrow is what
// the order escrow pays out - the order escrow ends where it started, the order is gone.
func Ob_C06_TerminateOrder_Escrows() {
	w := NewWorld()
	sym.SetBound("Order.Shards", 1)
	id := sym.Uint64("orderId")
	o, found := w.Order.GetOrder(w.Ctx, id)
	sym.Assume(found && o.Id == id && o.Status == ordertypes.OrderCompleted && o.Amount.Amount.IsPositive())
	for _, sid := range o.Shards {
		s, f := w.Order.GetShard(w.Ctx, sid)
		if f && s.Status == ordertypes.ShardCompleted && s.OrderId == o.Id {
			wk, hw := w.Market.GetWorker(w.Ctx, workerName(s.Sp))
			sym.Assume(hw && wk.LastRewardAt <= w.Height() && int64(s.CreatedAt+s.Duration) >= w.Height())
		}
		// cross-record invariants of an order's shard: it stores the order's bytes for at most the order's duration
		sym.Assume(!f || (s.Size_ == o.Size_ && s.CreatedAt+s.Duration <= uint64(w.Height())+o.Duration))
	}
	sym.Assume(o.Replica >= 1 && len(o.Shards) <= int(o.Replica))
	snap, nT := w.Snapshot(), w.TransferCount()
	var err error
	panicked, _ := sym.Catch(func() { err = w.Model.TerminateOrder(w.Ctx, o) })
	if panicked || err != nil {
		return
	}
	sym.Cover("C06.terminate-order")
	sym.Assert("C06.order-escrow-covers-after-terminate", netInto(w, nT, ordertypes.ModuleName).GTE(orderLiabDelta(w, snap)))
	sym.Assert("C06.order-escrow-passes-refund-through", netInto(w, nT, ordertypes.ModuleName).IsZero())
	// collateral released by the settlement leaves the node escrow together with the provider's record
	for _, sid := range o.Shards {
		var s0 ordertypes.Shard
		var f0 bool
		w.At(snap, func() { s0, f0 = w.Order.GetShard(w.Ctx, sid) })
		if f0 {
			nodeEscrowAfter(w, snap, nT, s0.Sp, "C06.node-escrow-covers-after-terminate")
		}
	}
	// (that the market hands over no more than the order's own money is the refund formula of Ob_C04C14_Withdraw
	// plus arithmetic: size*remaining <= size*replica*duration)
}

// MsgRenew: the renewal is paid into the market (a renewal order is no order-escrow liability) and the
// collateral top-up is either received by the node escrow or recorded as debt.
func Ob_C06_Renew_Escrows() {
	w := NewWorld()
	msg, _, s, _ := renewWindow(w)
	snap, nT := w.Snapshot(), w.TransferCount()
	var err error
	panicked, _ := sym.Catch(func() { _, err = w.SaoMsg.Renew(sdk.WrapSDKContext(w.Ctx), &msg) })
	if panicked || err != nil {
		return
	}
	s1, f := w.Order.GetShard(w.Ctx, s.Id)
	if !f || len(s1.RenewInfos) == 0 {
		return // this data id was not renewed
	}
	sym.Cover("C06.renew-succeeds")
	sym.Assert("C06.order-escrow-covers-after-renew", netInto(w, nT, ordertypes.ModuleName).GTE(orderLiabDelta(w, snap)))
	nodeEscrowAfter(w, snap, nT, s.Sp, "C06.node-escrow-covers-after-renew")
	// the market receives the price of the renewal order that was created
	for _, id := range w.WrittenUint64(snap, "order", ordertypes.OrderKey) {
		o1, f1 := w.Order.GetOrder(w.Ctx, id)
		if f1 && o1.Operation == 3 && id == s1.RenewInfos[0].OrderId {
			sym.Assert("C06.market-receives-renewal-price", netInto(w, nT, markettypes.ModuleName).Equal(o1.Amount.Amount))
		}
	}
}

// MsgStore: the price charged to the payer arrives in the order escrow together with the new order record
// (new data: the request is relayed by an account bound to the owner, who pays).
func Ob_C06_Store_OrderEscrow() {
	w := NewWorld()
	var msg saotypes.MsgStore
	sym.Fill("msg", &msg)
	sym.Assume(msg.Proposal.Size_ < 1<<20 && msg.Proposal.Replica < 8 && msg.Proposal.Duration < 1<<32)
	if sym.Tier() == "quick" {
		sym.Assume(w.Did.CreatorIsBoundToDid(w.Ctx, msg.Creator, msg.Proposal.Owner) == nil && msg.Proposal.PaymentDid == "")
	}
	// counter invariant (C16): the next order id is unused
	oc := w.Order.GetOrderCount(w.Ctx)
	_, taken := w.Order.GetOrder(w.Ctx, oc)
	sym.Assume(!taken && oc < 1<<60)
	snap, nT := w.Snapshot(), w.TransferCount()
	var err error
	panicked, _ := sym.Catch(func() { _, err = w.SaoMsg.Store(sdk.WrapSDKContext(w.Ctx), &msg) })
	if panicked || err != nil {
		return
	}
	sym.Cover("C06.store-succeeds")
	sym.Assert("C06.order-escrow-covers-after-store", netInto(w, nT, ordertypes.ModuleName).GTE(orderLiabDelta(w, snap)))
	sym.Assert("C06.store-creates-a-liability", orderLiabDelta(w, snap).IsPositive())
}

// HandleTimeoutOrder (end blocker): whichever branch is taken - cancel with refund, give-up, re-assignment,
// replica reduction - the order escrow keeps covering the orders it touched.
func Ob_C06_Timeout_OrderEscrow() {
	w := NewWorld()
	sym.SetBound("Order.Shards", 1)
	sym.SetEnumBound("node", nodetypes.NodeKeyPrefix, 1)
	sym.SetBound("Node.TxAddresses", 0)
	id := sym.Uint64("orderId")
	o, found := w.Order.GetOrder(w.Ctx, id)
	sym.Assume(found && o.Id == id)
	sym.Assume(uint64(w.Height()) >= o.CreatedAt)
	_, hasMeta := w.Model.GetMetadata(w.Ctx, o.DataId)
	sym.Assume(!hasMeta) // the rollback of the model is C05's subject
	payer, hasPayer := payerOf(w, o)
	_ = payer
	// solvency instance: the escrow covers this order
	sym.Assume(!hasPayer || w.Bal(modAddr(ordertypes.ModuleName), WorldDenom).Cmp(orderLiab(o, true).BigInt()) >= 0)
	sc := w.Order.GetShardCount(w.Ctx)
	_, taken := w.Order.GetShard(w.Ctx, sc)
	sym.Assume(!taken && sc < 1<<60)
	snap, nT := w.Snapshot(), w.TransferCount()
	panicked, _ := sym.Catch(func() { w.Sao.HandleTimeoutOrder(w.Ctx, id) })
	sym.Cover("C06.timeout-handled")
	if panicked {
		return // a panic in the end blocker is C02's subject
	}
	sym.Assert("C06.order-escrow-covers-after-timeout", netInto(w, nT, ordertypes.ModuleName).GTE(orderLiabDelta(w, snap)))
}
