//go:build verif

package zzverif

import (
	nodetypes "github.com/SaoNetwork/sao/x/node/types"
	"github.com/SaoNetwork/sao/zzverif/sym"
	sdk "github.com/cosmos/cosmos-sdk/types"
)

// C20 / T-promote + I-N1 on the delegation hook (clean process memory): after AfterDelegationModified the
// delegating node holds the super role only if it declares the full service status, has pledged the
// threshold capacity and owns at least the configured fraction of the validator's shares; and a node that
// had the role and no longer qualifies has lost it.
func Ob_C20_Hook_RoleMatchesPredicate() {
	w := NewWorld()
	params := concreteNodeParams(w, 1000000, 1000000000000)
	del, val := sym.String("delegator"), sym.String("validator")
	delAddr, e1 := sdk.AccAddressFromBech32(del)
	valAddr, e2 := sdk.ValAddressFromBech32(val)
	sym.Assume(e1 == nil && e2 == nil)
	w.Staking.DeclareDelegation(del, val)
	w.Staking.DeclareValidator(val)
	n0, isNode := w.HookNode.GetNode(w.Ctx, del)
	sym.Assume(isNode && n0.Role <= 1 && (n0.Validator == "" || n0.Validator == val))
	hooks := w.HookNode.Hooks()
	sym.Assume(w.HookNode.GetSharesBeforeModified(w.Ctx).IsZero()) // no hook pair is open at a transaction boundary
	panicked, _ := sym.Catch(func() { hooks.AfterDelegationModified(w.Ctx, delAddr, valAddr) })
	if panicked {
		return
	}
	sym.Cover("C20.hook-returns")
	n1, _ := w.HookNode.GetNode(w.Ctx, del)
	pledge, hasPledge := w.HookNode.GetPledge(w.Ctx, del)
	d := w.Staking.Delegation(w.Ctx, delAddr, valAddr)
	v, hasVal := w.Staking.GetValidator(w.Ctx, valAddr)
	threshold, _ := sdk.NewDecFromStr(params.ShareThreshold)
	qualifies := n1.Status&nodetypes.NODE_STATUS_SUPER_REQUIREMENT == nodetypes.NODE_STATUS_SUPER_REQUIREMENT &&
		hasPledge && pledge.TotalStorage >= params.VstorageThreshold && d != nil && hasVal &&
		!v.DelegatorShares.IsZero() && d.GetShares().Quo(v.DelegatorShares).GTE(threshold)
	if n1.Role == nodetypes.NODE_SUPER && d != nil {
		sym.Cover("C20.hook-super")
		sym.Assert("C20.super-only-if-qualified", qualifies)
	}
	if n0.Role == nodetypes.NODE_SUPER && d != nil && !qualifies {
		sym.Assert("C20.demoted-when-unqualified", n1.Role == nodetypes.NODE_NORMAL)
	}
}
