//go:build verif

package zzverif

import (
	nodetypes "github.com/SaoNetwork/sao/x/node/types"
	ordertypes "github.com/SaoNetwork/sao/x/order/types"
	saotypes "github.com/SaoNetwork/sao/x/sao/types"
	"github.com/SaoNetwork/sao/zzverif/sym"
	sdk "github.com/cosmos/cosmos-sdk/types"
)

func inList(x string, l []string) bool {
	r := false
	for _, s := range l {
		r = sym.Or(r, s == x)
	}
	return r
}

// C10 / F-cancel: an order is cancelled only by its creator or by an account that demonstrably belongs
// to the same gateway node as the creator (the gateway recorded on the order).
func Ob_C10_CancelAuth() {
	w := NewWorld()
	var msg saotypes.MsgCancel
	sym.Fill("msg", &msg)
	o, found := w.Order.GetOrder(w.Ctx, msg.OrderId)
	sym.Assume(found)
	if sym.Tier() == "quick" {
		// the authorisation decision is taken before the refund/rollback tail: keep the tail short
		_, hasMeta := w.Model.GetMetadata(w.Ctx, o.DataId)
		sym.Assume(len(o.Shards) == 0 && !hasMeta)
	}
	var err error
	panicked, _ := sym.Catch(func() { _, err = w.SaoMsg.Cancel(sdk.WrapSDKContext(w.Ctx), &msg) })
	if panicked || err != nil {
		return
	}
	sym.Cover("C10.cancel-succeeds")
	gw, gwFound := w.Node.GetNode(w.Ctx, o.Provider)
	signerOfGateway := sym.Or(msg.Creator == o.Provider, sym.And(gwFound, inList(msg.Creator, gw.TxAddresses)))
	creatorOfGateway := sym.Or(o.Creator == o.Provider, sym.And(gwFound, inList(o.Creator, gw.TxAddresses)))
	authorised := sym.Or(msg.Creator == o.Creator, sym.And(signerOfGateway, creatorOfGateway))
	claimed, claimedFound := w.Node.GetNode(w.Ctx, msg.Provider)
	// known class: the handler trusts the TxAddresses of the node *named in the message*
	kf := sym.And(msg.Provider != o.Provider, claimedFound, inList(o.Creator, claimed.TxAddresses))
	sym.AssertKF("C10.cancel-auth", authorised, sym.KF("KF-C10-1", kf))
}

// C10 / F-complete: a shard is reported stored only by its provider or an address the provider registered.
func Ob_C10_CompleteAuth() {
	w := NewWorld()
	var msg saotypes.MsgComplete
	sym.Fill("msg", &msg)
	o, found := w.Order.GetOrder(w.Ctx, msg.OrderId)
	sym.Assume(found)
	narrowComplete(w, o)
	snap := w.Snapshot()
	var err error
	panicked, _ := sym.Catch(func() { _, err = w.SaoMsg.Complete(sdk.WrapSDKContext(w.Ctx), &msg) })
	if panicked || err != nil {
		return
	}
	sym.Cover("C10.complete-succeeds")
	_ = o
	// every shard that became Completed in this call belongs to a provider the signer may act for
	for _, id := range w.WrittenUint64(snap, "order", ordertypes.ShardKey) {
		sh, f := w.Order.GetShard(w.Ctx, id)
		var was ordertypes.Shard
		var wasFound bool
		w.At(snap, func() { was, wasFound = w.Order.GetShard(w.Ctx, id) })
		if f && sh.Status == ordertypes.ShardCompleted && !(wasFound && was.Status == ordertypes.ShardCompleted) {
			n, nf := w.Node.GetNode(w.Ctx, sh.Sp)
			ok := sym.Or(msg.Creator == sh.Sp, sym.And(nf, inList(msg.Creator, n.TxAddresses)))
			sym.Assert("C10.complete-auth", ok)
		}
	}
}

// C10 / F-node-msgs: node messages change only the signer's own node / pledge records and pay only the signer.
func nodeFrame(w *World, snap int, nT int, signer string) {
	for _, k := range w.WrittenString(snap, "node", nodetypes.NodeKeyPrefix, "/") {
		sym.Assert("C10.node-msg-own-node", k == signer)
	}
	for _, k := range w.WrittenString(snap, "node", nodetypes.PledgeKeyPrefix, "/") {
		sym.Assert("C10.node-msg-own-pledge", k == signer)
	}
	for _, t := range w.TransfersSince(nT) {
		// worker income withheld against the signer's own pledge debt moves between the two escrows (market -> node)
		betweenEscrows := t.From == modAddr("market") && t.To == modAddr(nodetypes.ModuleName)
		if (t.From == modAddr(nodetypes.ModuleName) || t.From == modAddr("market")) && !betweenEscrows {
			sym.Assert("C10.node-msg-pays-signer", t.To == signer)
		}
		if t.To == modAddr(nodetypes.ModuleName) && t.From != "" && !betweenEscrows {
			sym.Assert("C10.node-msg-charges-signer", t.From == signer)
		}
	}
}

func Ob_C10C07C08C14_RemoveVstorage() {
	w := NewWorld()
	concreteNodeParams(w, 1000000, 1000000000000)
	var msg nodetypes.MsgRemoveVstorage
	sym.Fill("msg", &msg)
	p0, had := w.Node.GetPledge(w.Ctx, msg.Creator)
	pool0, _ := w.Node.GetPool(w.Ctx)
	snap, nT := w.Snapshot(), w.TransferCount()
	var err error
	panicked, _ := sym.Catch(func() { _, err = w.NodeMsg.RemoveVstorage(sdk.WrapSDKContext(w.Ctx), &msg) })
	if panicked || err != nil {
		return
	}
	sym.Cover("C10.removevstorage-succeeds")
	poolTotals(w, pool0, p0, had, msg.Creator)
	nodeFrame(w, snap, nT, msg.Creator)
	p1, has := w.Node.GetPledge(w.Ctx, msg.Creator)
	sym.Assert("C07.remove-needs-pledge", had && has)
	// never withdraws capacity that backs stored shards; used capacity stays within [0, total]
	sym.Assert("C07.remove-keeps-used-covered", p1.UsedStorage <= p1.TotalStorage && p1.UsedStorage >= 0 && p1.UsedStorage == p0.UsedStorage)
	sym.Assert("C07.remove-shrinks-total", p1.TotalStorage <= p0.TotalStorage)
	// pays exactly what it books off the pledge
	paid := sdk.ZeroInt()
	for _, t := range w.TransfersSince(nT) {
		if t.From == modAddr(nodetypes.ModuleName) {
			paid = paid.Add(sdk.NewIntFromBigInt(t.Amt))
		}
	}
	sym.Assert("C07.remove-pays-booked", p0.TotalStoragePledged.Amount.Sub(p1.TotalStoragePledged.Amount).Equal(paid))
}

func Ob_C10C07C08C14_AddVstorage() {
	w := NewWorld()
	concreteNodeParams(w, 1000000, 1000000000000)
	var msg nodetypes.MsgAddVstorage
	sym.Fill("msg", &msg)
	p0, had := w.Node.GetPledge(w.Ctx, msg.Creator)
	pool0, _ := w.Node.GetPool(w.Ctx)
	snap, nT := w.Snapshot(), w.TransferCount()
	var err error
	panicked, _ := sym.Catch(func() { _, err = w.NodeMsg.AddVstorage(sdk.WrapSDKContext(w.Ctx), &msg) })
	if panicked || err != nil {
		return
	}
	sym.Cover("C10.addvstorage-succeeds")
	poolTotals(w, pool0, p0, had, msg.Creator)
	nodeFrame(w, snap, nT, msg.Creator)
	p1, has := w.Node.GetPledge(w.Ctx, msg.Creator)
	sym.Assert("C07.add-creates-pledge", has)
	taken := sdk.ZeroInt()
	for _, t := range w.TransfersSince(nT) {
		if t.To == modAddr(nodetypes.ModuleName) {
			taken = taken.Add(sdk.NewIntFromBigInt(t.Amt))
		}
	}
	if had {
		sym.Assert("C07.add-books-taken", p1.TotalStoragePledged.Amount.Sub(p0.TotalStoragePledged.Amount).Equal(taken))
		// known class: a size whose byte count pushes TotalStorage past 2^63 wraps the int64 counter
		sym.AssertKF("C07.add-keeps-used", p1.UsedStorage == p0.UsedStorage && p1.TotalStorage >= p0.TotalStorage,
			sym.KF("KF-C07-1", msg.Size_ >= 1<<50))
	} else {
		sym.Assert("C07.add-books-taken", p1.TotalStoragePledged.Amount.Equal(taken))
	}
}

func Ob_C10C08_ClaimReward() {
	w := NewWorld()
	var msg nodetypes.MsgClaimReward
	sym.Fill("msg", &msg)
	snap, nT := w.Snapshot(), w.TransferCount()
	var err error
	panicked, _ := sym.Catch(func() { _, err = w.NodeMsg.ClaimReward(sdk.WrapSDKContext(w.Ctx), &msg) })
	if panicked || err != nil {
		return
	}
	sym.Cover("C10.claimreward-succeeds")
	nodeFrame(w, snap, nT, msg.Creator)
	// no coins are created by a claim
	for _, t := range w.TransfersSince(nT) {
		sym.Assert("C08.claim-mints-nothing", t.From != "")
	}
}

// narrowComplete: the quick tier explores the ordinary completion branch (no force-push settlement,
// no migration hand-over); the thorough tier explores everything.
func narrowComplete(w *World, o ordertypes.Order) {
	if sym.Tier() != "quick" {
		return
	}
	sym.Assume(o.Operation != 2 && o.Status == ordertypes.OrderCompleted) // a later replica completing; first completion is C04/C16's subject
	sym.SetBound("Shard.RenewInfos", 0)
	sym.SetBound("Metadata.Orders", 0)
	sym.SetBound("ExpiredData.Data", 0)
	for _, id := range o.Shards {
		s, f := w.Order.GetShard(w.Ctx, id)
		sym.Assume(!f || s.Status != ordertypes.ShardMigrating)
	}
}

// poolTotals (C14 Σ-P4 / C08): the network totals move by exactly what the provider's own capacity and
// capacity pledge moved, and the provider's pending block reward is settled before its capacity changes.
func poolTotals(w *World, pool0 nodetypes.Pool, p0 nodetypes.Pledge, had bool, sp string) {
	pool1, _ := w.Node.GetPool(w.Ctx)
	p1, _ := w.Node.GetPledge(w.Ctx, sp)
	t0, c0 := int64(0), sdk.ZeroInt()
	if had {
		t0, c0 = p0.TotalStorage, p0.TotalStoragePledged.Amount
	}
	sym.Assert("C14.pool-totalstorage-delta", pool1.TotalStorage-pool0.TotalStorage == p1.TotalStorage-t0)
	sym.Assert("C14.pool-totalpledged-delta", pool1.TotalPledged.Amount.Sub(pool0.TotalPledged.Amount).Equal(p1.TotalStoragePledged.Amount.Sub(c0)))
	if had && p0.TotalStorage > 0 {
		sym.Assert("C08.vstorage-settles-reward-first", pendingReward(p1, pool0).Equal(pendingReward(p0, pool0)))
	}
}
