//go:build verif

package keeper

import sdk "github.com/cosmos/cosmos-sdk/types"

// verif-only accessors for the process-global that carries delegation shares between two staking hooks
// (added as an overlay file during checks; never part of the repository)

func VerifSetSharesBeforeModified(d sdk.Dec) { sharesBeforeModified = d }
func VerifGetSharesBeforeModified() sdk.Dec   { return sharesBeforeModified }
