#!/usr/bin/env python3
import json, re, glob, collections
obs = collections.defaultdict(list)
for f in sorted(glob.glob('/verif/harness/zzverif/ob_*.go')):
    for m in re.finditer(r'^func (Ob_([A-Z0-9]+)_[A-Za-z0-9_]+)\(\)', open(f).read(), re.M):
        tag = m.group(2)
        for i in range(0, len(tag), 3):
            obs[tag[i:i+3]].append(m.group(1))
TEXT = {
 'C01': ("two-run obligations: the same handler is executed twice from the same committed state with independent clock readings / process-global residues and the solver is asked for inputs on which the results differ", "only the sites found in the SAO modules (wall clock in the DID handlers, the staking-hook global) are encoded; application hash, gas, IAVL and Tendermint are outside (DESIGN §9)"),
 'C02': ("no-panic / termination obligations on the block hooks and the selection loops: every path of BeginBlocker, node EndBlock, model EndBlocker, HandleTimeoutOrder, HandleExpiredShard from an invariant pre-state must return; loops carry unwinding assertions", "cross-record invariants (escrow solvency, counters cover live shards) are assumed on the window; sao.EndBlocker is covered through its two per-id handlers; loop bounds 24/40"),
 'C03': ("process-memory obligations: the role decision of the staking hook is compared between an arbitrary residue of the package-level variable and the freshly-started value; a complete Before/After hook pair must reset the variable", "the physical stop/restart (DB reopen, LoadLatestVersion) cannot be encoded and is outside the claim"),
 'C04': ("closed-form settlement obligations on the real keeper functions: charge refund (Withdraw formula), deposit exactly once and exactly Amount, income accrual settled before every rate change (WorkerAppend/Release/Claim), full refund to the payer", "whole-lifecycle conservation is the composition of the per-event equations (argued, not solved); MsgStore's charge is exercised through C09/C16 obligations only"),
 'C05': ("Hoare triples on MsgCancel, the pending-timeout and the give-up branch of HandleTimeoutOrder, RefundOrder and RollbackMeta: full refund once to the payer, order and all listed shards gone, model rolled back or removed with its alias", "quick tier bounds lists to 1-2 entries"),
 'C07': ("unit contracts of ShardPledge / ShardRelease / Add- and RemoveVstorage / Renew: collateral leaves the node escrow only to the provider whose record is debited, taken = written + recorded debt, returned = pledge - repaid debt, used <= total", "int64 overflow of TotalStorage for sizes >= 2^50 is a listed known finding"),
 'C08': ("mint obligations on BeginBlocker with concrete validated parameters and three points of the halving schedule, settle-before-change obligations on ShardPledge/ShardRelease, no-mint frame on ClaimReward", "parameters are concrete in the quick tier; the float logarithm of the halving age is evaluated, not abstracted, only at the tabled points"),
 'C09': ("frame obligations: after every successful MsgStore / MsgTerminate / MsgRenew / MsgUpdataPermission any difference of the model implies a ghost-logged valid signature of the owner (or read-write grantee where allowed); unit contracts of UpdateMeta / UpdatePermission", "the sao-did library is a contract stub (success => kid DID = manager DID); its cryptography is outside the claim"),
 'C10': ("frame obligations with an adversary window on MsgCancel, MsgComplete and the node messages: success implies the signer is the record's own account / the shard's provider or registered address / the order's gateway", "MsgReady/MsgMigrate/MsgStore payer selection are thorough-tier work not yet built"),
 'C11': ("expiry obligations on HandleExpiredShard (release and rotate branches), SetExpiredShardBlock, NewMeta and RollbackMeta scheduling", "F-not-before over all handlers is covered only through the handlers that have obligations"),
 'C12': ("timeout obligations on HandleTimeoutOrder: pending -> cancel, give-up after ten intervals -> cancel + refund, unresolved -> rescheduled at now+Timeout, fully stored -> nothing changes", "the ranking-function argument for eventual resolution is argued from the one-step obligations, not solved"),
 'C13': ("referential-integrity clauses as post-conditions of the functions that create or remove references: NewOrder (order<->shards), HandleExpiredShard (order drops shard / disappears with last shard), NewMeta/RollbackMeta (alias entry), SetExpiredShardBlock (release scheduled)", "form-I obligations for every handler are not built; migration list surgery is covered only in the thorough tier through Complete"),
 'C14': ("delta obligations on every function that changes a provider counter: ShardPledge/ShardRelease (used, shard collateral), WorkerAppend/WorkerRelease (bytes, income rate), HandleExpiredShard, Renew (collateral sum)", "pool-wide totals are checked only through Add/RemoveVstorage frames"),
 'C15': ("unit obligations on RandomIndex, GetNextSuperNodes and RandomSP over an enumerated symbolic node population, ignore list, count and seed", "seed < 10^3, total <= 4, count <= 2, <= 2-3 nodes; floats as reals"),
 'C16': ("triples on AppendOrder / AppendShard / NewOrder (fresh ids, counters) and UpdateMeta (append exactly one history entry; force-push replaces only the latest)", "the base-version check of MsgStore is exercised by the C09 store obligation only"),
 'C18': ("round-trip obligations per module: real ExportGenesis, real Validate (node), real InitGenesis into an empty twin store family, then record-by-record comparison of what both serve (orders, shards, counters, nodes, pledges, debts, pool, schedules, models, aliases, workers; faults / fishing rewards / cursor for arbitrary keys)", "the DID module, bank balances of the module accounts, the JSON codec of the genesis file and the continuation (same later blocks) are outside: continuation follows from C01/C03 only by argument; <= 2 entries per prefix"),
 'C19': ("frame + validity obligation on MsgReportFaults: any recorded report implies a registered fishman reporter and an existing unexpired shard of the accused provider; nothing but fault records written, no transfer", "RecoverFaults / DoPenalty penalty caps are not yet built"),
 'C20': ("role obligations on the delegation hook: after AfterDelegationModified (clean process memory) the delegating node is super only if status mask, capacity threshold and share ratio hold, and an unqualified super node is demoted; plus the two-run obligation shared with C03", "validator-level hooks, Reset / Add- / RemoveVstorage promotion paths and second delegators are not built; the staking module is a declared-facts model"),
}
checks = []
for p in sorted(TEXT):
    text, note = TEXT[p]
    checks.append({
        "property_id": p, "quick_cmd": "./check %s quick" % p, "thorough_cmd": "./check %s thorough" % p,
        "evidence_file": "evidence/%s.json" % p, "replay_cmd_template": "./check replay {path}", "engine": "gosym",
        "level_claimed": {"category": "other", "text": "bounded symbolic execution of the real code with SMT (within the stated bounds the solver decides every assertion for all inputs and pre-states; not a proof, not sampling): " + text + ". Obligations: " + ", ".join(sorted(set(obs[p]))), "design_ref": "DESIGN.md §8 " + p + ", §13"},
        "level_note": note + "; trusted base: intrinsic models of math/big, strings/fmt, KV store, codec, params, bank, staking, bech32, crypto (DESIGN §3.3), record invariants of harness/zzverif/inv.go, UF abstraction of symbolic products with exact refinement of counterexamples",
        "technique": "SMT-based bounded symbolic execution of go/ssa (cvc5, z3), counterexamples replayed natively"})
na = [
 {"property_id": "C06", "reason": "the Σ-solvency obligations over whole module accounts (liabilities summed over all records) were not built in this session; escrow solvency is only used as an assumption by C11/C02 obligations. The technique applies (delta-sum form, DESIGN §4); it is unbuilt, not inapplicable."},
 {"property_id": "C17", "reason": "the DID handlers sit behind secp256k1 / EIP-191 / multibase / regexp parsing for which no intrinsic models were written in this session; only the clock dependence of MsgUpdate is checked (under C01). Unbuilt, not inapplicable."},
]
m = {"version": 1, "setup_cmd": "./setup.sh",
     "hooks": {"guard": "verif", "enable": "no file under /repo is changed: harness files (package zzverif, //go:build verif) and one in-package accessor file are injected as overlays (packages.Config.Overlay for symbolic execution; go test -c -overlay -tags verif for native replay, where three sao-did files and the two clock-reading DID handlers are replaced by replay-oracle copies generated from the current sources)",
               "baseline_off_cmd": "cd /repo && go test -vet=off -count=1 -timeout 25m ./...", "source_commits": [], "add_only": True},
     "engines": [{"name": "gosym", "path": "engine/", "serves_properties": sorted(TEXT), "kind_free_text": "path-based symbolic executor for go/ssa (x/tools v0.29.0) with SMT back ends cvc5 1.0 / z3 4.8.12 / z3 5.1, open-world KV-store model, native replay of every model"}],
     "checks": checks, "not_applicable": na,
     "notes": "genuine defects repaired by fix: commits in /repo and recorded in known_findings.jsonl (status fixed); remaining known findings: KF-C03-1, KF-C07-1"}
json.dump(m, open('/verif/MANIFEST.json', 'w'), indent=1)
print(len(checks), 'checks')
