package main

import (
	"fmt"
	"go/types"
	"math/big"
	"os"
	"sort"
	"strings"

	"golang.org/x/tools/go/ssa"
)

// ---- control-flow signals (Go panics used for non-local exits)

type goPanic struct { // a modelled Go runtime/explicit panic
	kind string
	val  Value
	site string
}

type pathAbort struct { // path ends: infeasible assumption, unsupported feature, budget
	reason string
	kind   string // "assume", "unsupported", "unwind", "budget", "infeasible"
}

type Frame struct {
	fn        *ssa.Function
	env       map[ssa.Value]Value
	defers    []deferred
	panicking *goPanic
	caller    *Frame
	site      string
	results   Value
	loops     map[*ssa.BasicBlock]int
}

type deferred struct {
	fn   Value
	args []Value
	call *ssa.CallCommon
	pos  string
}

type Violation struct {
	Label   string
	Kind    string // "assert", "panic", "unwind"
	Site    string
	Model   map[string]string
	Trace   []int
	Detail  string
	usedNL  bool
	refined string
	KFs     []string // matching known-finding class ids (if any)
	Outside bool     // sat outside every known class
	Case    *CaseFile
}

type PathResult struct {
	Trace      []int
	End        string // "ok", "panic", "abort:<kind>"
	Reason     string
	Covers     []string
	Violations []*Violation
	Incon      []string
	Forks      int
	Steps      int
	SymPC      bool
	PCSample   string
	Funcs      map[string]int
}

type Machine struct {
	eng    *Engine
	in     *Interner
	sol    *Solver
	pc     []*Term
	pcSet  map[int]bool
	prefix []int
	pos    int
	trace  []int
	alts   [][]int

	nextCell int
	nextSym  int
	nextTok  int

	globals   map[*ssa.Global]*Cell
	initDone  map[*ssa.Package]bool
	initMode  int
	stepLimit int
	steps     int
	depth     int
	frame     *Frame

	w     *World // store / env / ghost state of this path
	res   *PathResult
	funcs map[string]int

	nondets   []NondetRec
	loopCount map[*ssa.BasicBlock]int

	snaps      []*snapshot
	paramProto map[string]types.Type
	paramCells map[string]*Cell
	paramInit  map[string]Value
	pathVars   []*Term
	gsnap      map[*ssa.Global]Value
	payloads   []payloadRec
	forceExact bool
	splitMemo  []splitMemo
	sigChecks  []sigCheck
	realise    []*Term // constraints wanted of a counterexample model only (make it replay), never needed for soundness
	ufArgs     map[string][]*Term // UF predicates applied on this path (validbech32_acc, validdec, ...)
}

type NondetRec struct {
	Name string
	Val  Value
	Typ  types.Type
}

func (m *Machine) abort(kind, format string, a ...interface{}) {
	panic(&pathAbort{kind: kind, reason: fmt.Sprintf(format, a...)})
}

func (m *Machine) unsupported(format string, a ...interface{}) {
	m.abort("unsupported", format, a...)
}

func (m *Machine) site() string {
	for f := m.frame; f != nil; f = f.caller {
		if f.site != "" {
			return f.site
		}
	}
	return ""
}

// repoSite returns the innermost /repo position on the call stack.
func (m *Machine) repoSite() string {
	for f := m.frame; f != nil; f = f.caller {
		if strings.Contains(f.site, "/repo/") && !strings.Contains(f.site, "/repo/zzverif/") {
			return strings.TrimPrefix(f.site, "/repo/")
		}
	}
	return m.site()
}

func (m *Machine) goPanicf(kind string, format string, a ...interface{}) {
	panic(&goPanic{kind: kind, val: m.in.Str(fmt.Sprintf(format, a...)), site: m.repoSite()})
}

func (m *Machine) noteUF(name string, arg *Term) {
	if m.ufArgs == nil {
		m.ufArgs = map[string][]*Term{}
	}
	for _, t := range m.ufArgs[name] {
		if t == arg {
			return
		}
	}
	m.ufArgs[name] = append(m.ufArgs[name], arg)
}

// ---- fresh symbols

func cleanName(s string) string {
	var sb strings.Builder
	for _, c := range s {
		switch {
		case c >= 'a' && c <= 'z', c >= 'A' && c <= 'Z', c >= '0' && c <= '9', c == '_', c == '.':
			sb.WriteRune(c)
		default:
			sb.WriteByte('_')
		}
	}
	return sb.String()
}

func (m *Machine) freshName(prefix, hint string) string {
	m.nextSym++
	return fmt.Sprintf("%s!%d!%s", prefix, m.nextSym, cleanName(hint))
}

func (m *Machine) freshInt(hint string, info intInfo) *Term {
	p := "i"
	if !info.signed {
		p = "u"
	}
	v := m.in.Var(m.freshName(p, hint), SInt)
	m.pathVars = append(m.pathVars, v)
	lo, hi := intRange(info)
	m.addPC(m.in.And(m.in.Le(m.in.Int(lo), v), m.in.Le(v, m.in.Int(hi))))
	return v
}
func (m *Machine) track(v *Term) *Term {
	m.pathVars = append(m.pathVars, v)
	return v
}
func (m *Machine) freshBig(hint string) *Term  { return m.track(m.in.Var(m.freshName("z", hint), SInt)) }
func (m *Machine) freshBool(hint string) *Term { return m.track(m.in.Var(m.freshName("b", hint), SBool)) }
func (m *Machine) freshStr(hint string) *Term  { return m.track(m.in.Var(m.freshName("s", hint), SString)) }
func (m *Machine) freshReal(hint string) *Term { return m.track(m.in.Var(m.freshName("r", hint), SReal)) }

func intRange(info intInfo) (*big.Int, *big.Int) {
	one := big.NewInt(1)
	if info.signed {
		hi := new(big.Int).Lsh(one, uint(info.bits-1))
		lo := new(big.Int).Neg(hi)
		hi.Sub(hi, one)
		return lo, hi
	}
	hi := new(big.Int).Lsh(one, uint(info.bits))
	hi.Sub(hi, one)
	return big.NewInt(0), hi
}

// ---- path condition / forking

func (m *Machine) addPC(c *Term) {
	if c.IsConst() {
		if !c.bv {
			m.abort("infeasible", "false added to pc")
		}
		return
	}
	if c.op == "and" {
		for _, a := range c.args {
			m.addPC(a)
		}
		return
	}
	if m.pcSet[c.id] {
		return
	}
	m.pcSet[c.id] = true
	m.pc = append(m.pc, c)
}

func (m *Machine) feasible(c *Term) Result {
	if c.IsConst() {
		if c.bv {
			return Sat
		}
		return Unsat
	}
	if m.pcSet[c.id] {
		return Sat
	}
	if n := m.in.Not(c); m.pcSet[n.id] {
		return Unsat
	}
	r, _ := m.sol.CheckInc(m.pc, []*Term{c}, nil)
	return r
}

// replaying: decisions of the prefix are still pending, so everything up to here was executed (and
// every assumption / assertion here was already decided) by the ancestor path that scheduled this one.
func (m *Machine) replaying() bool { return m.pos < len(m.prefix) }

// branch decides a symbolic condition for this path; the other feasible side is scheduled.
func (m *Machine) branch(c *Term) bool {
	if c.IsConst() {
		return c.bv
	}
	if m.pcSet[c.id] {
		return true
	}
	if m.pcSet[m.in.Not(c).id] {
		return false
	}
	if m.pos < len(m.prefix) {
		d := m.prefix[m.pos]
		m.pos++
		m.trace = append(m.trace, d)
		if d == 1 {
			m.addPC(c)
			return true
		}
		m.addPC(m.in.Not(c))
		return false
	}
	m.res.Forks++
	if m.eng.forkSites != nil {
		m.eng.noteFork(m.repoSite())
	}
	rt := m.feasible(c)
	var rf Result
	if rt == Unsat {
		rf = Sat
	} else {
		rf = m.feasible(m.in.Not(c))
	}
	if rt == Unknown || rf == Unknown {
		m.res.Incon = append(m.res.Incon, "unknown-branch@"+m.repoSite())
	}
	takeT := rt != Unsat
	takeF := rf != Unsat
	if !takeT && !takeF {
		m.abort("infeasible", "both branch sides unsat")
	}
	m.pos++
	if takeT && takeF {
		alt := append(append([]int{}, m.trace...), 0)
		m.alts = append(m.alts, alt)
		m.trace = append(m.trace, 1)
		m.addPC(c)
		return true
	}
	if takeT {
		m.trace = append(m.trace, 1)
		m.addPC(c)
		return true
	}
	m.trace = append(m.trace, 0)
	m.addPC(m.in.Not(c))
	return false
}

// chooseFree forks n ways without feasibility checks (fresh structure choices).
func (m *Machine) chooseFree(n int) int {
	if n <= 1 {
		return 0
	}
	if m.pos < len(m.prefix) {
		d := m.prefix[m.pos]
		m.pos++
		m.trace = append(m.trace, d)
		return d
	}
	m.pos++
	for d := n - 1; d >= 1; d-- {
		alt := append(append([]int{}, m.trace...), d)
		m.alts = append(m.alts, alt)
	}
	m.trace = append(m.trace, 0)
	return 0
}

// checkPanic forks on a runtime-panic condition.
func (m *Machine) checkPanic(cond *Term, kind string) {
	if cond.IsConst() && !cond.bv {
		return
	}
	if m.branch(cond) {
		m.goPanicf(kind, "%s", kind)
	}
}

// concretize forces a symbolic int into a concrete one by case split over lo..hi.
func (m *Machine) concretize(t *Term, lo, hi int, what string) int {
	if t.IsConst() {
		return int(t.iv.Int64())
	}
	for v := lo; v <= hi; v++ {
		if m.branch(m.in.Eq(t, m.in.I64(int64(v)))) {
			return v
		}
	}
	m.abort("unwind", "value of %s outside concretisation range %d..%d at %s", what, lo, hi, m.repoSite())
	return 0
}

// ---- memory

func (m *Machine) newCell(t types.Type, n int, tag string) *Cell {
	m.nextCell++
	c := &Cell{id: m.nextCell, typ: t, tag: tag, elems: make([]Value, n)}
	return c
}

func (m *Machine) zero(t types.Type) Value {
	t = types.Unalias(t)
	if isNamed(t, "math/big", "Int") {
		return &BigVal{t: m.in.I64(0)}
	}
	switch u := t.Underlying().(type) {
	case *types.Basic:
		switch {
		case u.Info()&types.IsBoolean != 0:
			return m.in.Bool(false)
		case u.Info()&types.IsInteger != 0:
			return m.in.I64(0)
		case u.Info()&types.IsFloat != 0:
			return m.in.Real(new(big.Rat))
		case u.Info()&types.IsString != 0:
			return m.in.Str("")
		case u.Kind() == types.UnsafePointer:
			return Pointer{}
		case u.Kind() == types.UntypedNil:
			return nilIface
		}
		m.unsupported("zero of basic %s", u)
	case *types.Pointer:
		return Pointer{}
	case *types.Struct:
		f := make([]Value, u.NumFields())
		for i := range f {
			f[i] = m.zero(u.Field(i).Type())
		}
		return &StructVal{f: f}
	case *types.Array:
		n := int(u.Len())
		if n > 4096 {
			m.unsupported("large array %d", n)
		}
		e := make([]Value, n)
		for i := range e {
			e[i] = m.zero(u.Elem())
		}
		return &ArrayVal{e: e}
	case *types.Slice:
		if isByteSlice(t) {
			return &BytesVal{isNil: true}
		}
		return &SliceVal{isNil: true}
	case *types.Map:
		return &MapVal{}
	case *types.Interface:
		return nilIface
	case *types.Signature:
		return &FuncVal{isNil: true}
	case *types.Chan:
		return Pointer{}
	case *types.Tuple:
		tv := make(TupleVal, u.Len())
		for i := range tv {
			tv[i] = m.zero(u.At(i).Type())
		}
		return tv
	}
	m.unsupported("zero of %s", t)
	return nil
}

func getPath(v Value, path []int) Value {
	for _, i := range path {
		switch x := v.(type) {
		case *StructVal:
			v = x.f[i]
		case *ArrayVal:
			v = x.e[i]
		default:
			panic(fmt.Sprintf("getPath through %T", v))
		}
	}
	return v
}

func setPath(v Value, path []int, nv Value) Value {
	if len(path) == 0 {
		return nv
	}
	i := path[0]
	switch x := v.(type) {
	case *StructVal:
		f := append([]Value{}, x.f...)
		f[i] = setPath(x.f[i], path[1:], nv)
		return &StructVal{f: f}
	case *ArrayVal:
		e := append([]Value{}, x.e...)
		e[i] = setPath(x.e[i], path[1:], nv)
		return &ArrayVal{e: e}
	}
	panic(fmt.Sprintf("setPath through %T", v))
}

func (m *Machine) load(p Pointer) Value {
	if p.cell == nil {
		m.goPanicf("nil-deref", "nil pointer dereference")
	}
	if p.arr {
		return &ArrayVal{e: append([]Value{}, p.cell.elems...)}
	}
	return getPath(p.cell.elems[p.idx], p.path)
}

func (m *Machine) store(p Pointer, v Value) {
	if p.cell == nil {
		m.goPanicf("nil-deref", "nil pointer dereference (store)")
	}
	if p.arr {
		copy(p.cell.elems, v.(*ArrayVal).e)
		return
	}
	p.cell.elems[p.idx] = setPath(p.cell.elems[p.idx], p.path, v)
}

func extendPath(p Pointer, i int) Pointer {
	np := make([]int, len(p.path)+1)
	copy(np, p.path)
	np[len(p.path)] = i
	return Pointer{cell: p.cell, idx: p.idx, path: np}
}

// ---- forcing lazies

func (m *Machine) force(v Value) Value {
	switch x := v.(type) {
	case *SliceVal:
		if x.lazy != nil {
			return m.resolveLazy(x.lazy)
		}
	case *LazyPtr:
		return m.resolveLazyPtr(x)
	}
	return v
}

func (m *Machine) resolveLazy(l *Lazy) *SliceVal {
	if l.resolved != nil {
		return l.resolved
	}
	b := l.bound
	n := m.chooseFree(b + 1)
	if n == 0 {
		l.resolved = &SliceVal{isNil: true}
		return l.resolved
	}
	c := m.newCell(l.elem, n, l.name)
	for i := 0; i < n; i++ {
		c.elems[i] = m.materialize(l.elem, fmt.Sprintf("%s.%d", l.name, i))
	}
	l.resolved = &SliceVal{cell: c, len: n, cap: n}
	return l.resolved
}

func (m *Machine) resolveLazyPtr(l *LazyPtr) Pointer {
	if l.resolved != nil {
		return *l.resolved
	}
	d := m.chooseFree(2)
	var p Pointer
	if d == 0 {
		c := m.newCell(l.elem, 1, l.name)
		c.elems[0] = m.materialize(l.elem, l.name)
		p = Pointer{cell: c}
	}
	l.resolved = &p
	return p
}

// materialize builds a fully symbolic value of type t (fresh leaves, lazy slices/pointers).
func (m *Machine) materialize(t types.Type, name string) Value {
	t = types.Unalias(t)
	if isNamed(t, "math/big", "Int") {
		return &BigVal{t: m.freshBig(name)}
	}
	if isNamed(t, "cosmossdk.io/math", "Int") || isNamed(t, "github.com/cosmos/cosmos-sdk/types", "Dec") || isNamed(t, "cosmossdk.io/math", "LegacyDec") {
		// struct{ i *big.Int } with a non-nil big.Int
		c := m.newCell(m.eng.bigIntType, 1, name)
		z := m.freshBig(name)
		if b := m.eng.cfg.BigAbsBound; b != nil {
			m.addPC(m.in.And(m.in.Le(m.in.Int(new(big.Int).Neg(b)), z), m.in.Le(z, m.in.Int(b))))
		}
		c.elems[0] = &BigVal{t: z}
		return &StructVal{f: []Value{Pointer{cell: c}}}
	}
	switch u := t.Underlying().(type) {
	case *types.Basic:
		switch {
		case u.Info()&types.IsBoolean != 0:
			return m.freshBool(name)
		case u.Info()&types.IsInteger != 0:
			info, _ := intInfoOf(t)
			return m.freshInt(name, info)
		case u.Info()&types.IsFloat != 0:
			return m.freshReal(name)
		case u.Info()&types.IsString != 0:
			return m.freshStr(name)
		}
	case *types.Struct:
		f := make([]Value, u.NumFields())
		for i := range f {
			fl := u.Field(i)
			if strings.HasPrefix(fl.Name(), "XXX_") {
				f[i] = m.zero(fl.Type())
				continue
			}
			if c, ok := m.w.fixStr[fl.Name()]; ok && isString(fl.Type()) {
				f[i] = c
				continue
			}
			f[i] = m.materialize(fl.Type(), name+"."+fl.Name())
		}
		return &StructVal{f: f}
	case *types.Slice:
		if isByteSlice(t) {
			return &BytesVal{segs: []Seg{{k: SegUF, t: m.freshStr(name)}}}
		}
		return &SliceVal{lazy: &Lazy{name: name, elem: u.Elem(), bound: m.boundFor(name)}}
	case *types.Pointer:
		return &LazyPtr{name: name, elem: u.Elem()}
	case *types.Array:
		e := make([]Value, int(u.Len()))
		for i := range e {
			e[i] = m.materialize(u.Elem(), fmt.Sprintf("%s.%d", name, i))
		}
		return &ArrayVal{e: e}
	case *types.Map:
		return &MapVal{} // maps in stored records are not used by the modules
	case *types.Interface:
		return nilIface
	}
	m.unsupported("materialize %s", t)
	return nil
}

func (m *Machine) boundFor(name string) int {
	best, bl := -1, 0
	for k, v := range m.w.bounds {
		if strings.HasSuffix(name, k) && len(k) > bl {
			best, bl = v, len(k)
		}
	}
	if best >= 0 {
		return best
	}
	return m.eng.boundFor(name)
}

// deepCopy snapshots a value (marshal / unmarshal semantics): slices and pointees are copied.
func (m *Machine) deepCopy(v Value) Value {
	switch x := v.(type) {
	case *StructVal:
		f := make([]Value, len(x.f))
		for i := range f {
			f[i] = m.deepCopy(x.f[i])
		}
		return &StructVal{f: f}
	case *ArrayVal:
		e := make([]Value, len(x.e))
		for i := range e {
			e[i] = m.deepCopy(x.e[i])
		}
		return &ArrayVal{e: e}
	case *SliceVal:
		if x.lazy != nil {
			if x.lazy.resolved == nil {
				return x // unresolved lazies are immutable until resolved; sharing keeps both views equal
			}
			x = x.lazy.resolved
		}
		if x.isNil || x.len == 0 {
			return &SliceVal{isNil: true}
		}
		c := m.newCell(x.cell.typ, x.len, x.cell.tag)
		for i := 0; i < x.len; i++ {
			c.elems[i] = m.deepCopy(x.cell.elems[x.off+i])
		}
		return &SliceVal{cell: c, len: x.len, cap: x.len}
	case *LazyPtr:
		if x.resolved == nil {
			return x
		}
		return m.deepCopy(*x.resolved)
	case Pointer:
		if x.cell == nil {
			return x
		}
		c := m.newCell(x.cell.typ, 1, x.cell.tag)
		c.elems[0] = m.deepCopy(getPath(x.cell.elems[x.idx], x.path))
		return Pointer{cell: c}
	case *BigVal:
		return &BigVal{t: x.t}
	case *MapVal:
		if x.m == nil {
			return x
		}
		m.nextCell++
		nm := &MapObj{id: m.nextCell, kt: x.m.kt, vt: x.m.vt}
		for _, e := range x.m.entries {
			nm.entries = append(nm.entries, MapEntry{k: e.k, v: m.deepCopy(e.v)})
		}
		return &MapVal{m: nm}
	}
	return v
}

// ---- globals & package init

func (m *Machine) globalCell(g *ssa.Global) *Cell {
	if c, ok := m.globals[g]; ok {
		return c
	}
	et := g.Type().(*types.Pointer).Elem()
	c := m.newCell(et, 1, "global:"+g.String())
	c.elems[0] = m.zero(et)
	m.globals[g] = c
	if g.Pkg != nil && !m.initDone[g.Pkg] {
		m.runInit(g.Pkg)
	}
	return c
}

func (m *Machine) runInit(p *ssa.Package) {
	if m.initDone[p] {
		return
	}
	m.initDone[p] = true
	if m.eng.skipInit(p.Pkg.Path()) {
		return
	}
	initFn := p.Func("init")
	if initFn == nil {
		return
	}
	if initFn.Blocks == nil {
		m.eng.methodMu.Lock()
		p.Build()
		m.eng.methodMu.Unlock()
	}
	if os.Getenv("GOSYM_DEBUG") != "" {
		fmt.Fprintln(os.Stderr, "init", p.Pkg.Path())
	}
	saved := m.frame
	m.frame = nil
	m.initMode++
	defer func() { m.initMode--; m.frame = saved }()
	m.callFn(initFn, nil, nil, "init")
	// snapshot globals that non-init code may write, so every path starts from the declared value
	for _, mem := range p.Members {
		if g, ok := mem.(*ssa.Global); ok && m.eng.mutableG[g] {
			if c, ok := m.globals[g]; ok {
				m.gsnap[g] = m.deepCopy(c.elems[0])
			}
		}
	}
}

// ---- reporting helpers

func (m *Machine) pcSample() string {
	var parts []string
	for _, c := range m.pc {
		if c.nsym {
			parts = append(parts, m.in.Show(c))
		}
		if len(parts) >= 6 {
			break
		}
	}
	return strings.Join(parts, " ∧ ")
}

func sortedFuncs(fm map[string]int) []string {
	ks := make([]string, 0, len(fm))
	for k := range fm {
		ks = append(ks, k)
	}
	sort.Strings(ks)
	return ks
}
