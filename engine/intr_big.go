package main

import (
	"math/big"

	"golang.org/x/tools/go/ssa"
)

// math/big.Int is intrinsic: an object with one mathematical integer.

func (m *Machine) bigCell(v Value) *Cell {
	p := m.force(v).(Pointer)
	if p.cell == nil {
		m.goPanicf("nil-deref", "nil *big.Int")
	}
	if _, ok := getPath(p.cell.elems[p.idx], p.path).(*BigVal); !ok {
		m.unsupported("big.Int pointer to %T", getPath(p.cell.elems[p.idx], p.path))
	}
	return p.cell
}

func (m *Machine) bigGet(v Value) *Term {
	p := m.force(v).(Pointer)
	if p.cell == nil {
		m.goPanicf("nil-deref", "nil *big.Int")
	}
	bv, ok := m.load(p).(*BigVal)
	if !ok {
		m.unsupported("big.Int pointer to %T", m.load(p))
	}
	return bv.t
}

func (m *Machine) bigSet(v Value, t *Term) Value {
	p := m.force(v).(Pointer)
	if p.cell == nil {
		m.goPanicf("nil-deref", "nil *big.Int receiver")
	}
	m.store(p, &BigVal{t: t})
	return p
}

func (m *Machine) newBig(t *Term) Pointer {
	c := m.newCell(m.eng.bigIntType, 1, "big")
	c.elems[0] = &BigVal{t: t}
	return Pointer{cell: c}
}

func newBigU(v uint64) *big.Int { return new(big.Int).SetUint64(v) }

func (m *Machine) absT(t *Term) *Term {
	if t.IsConst() {
		return m.in.Int(new(big.Int).Abs(t.iv))
	}
	return m.in.Ite(m.in.Le(m.in.I64(0), t), t, m.in.Neg(t))
}

func (m *Machine) signT(t *Term) *Term {
	if t.IsConst() {
		return m.in.I64(int64(t.iv.Sign()))
	}
	z := m.in.I64(0)
	return m.in.Ite(m.in.Lt(t, z), m.in.I64(-1), m.in.Ite(m.in.Eq(t, z), z, m.in.I64(1)))
}

func init() {
	B := "(*math/big.Int)."
	bin := func(f func(m *Machine, a, b *Term) *Term) intrinsicFn {
		return func(m *Machine, fn *ssa.Function, args []Value) Value {
			a, b := m.bigGet(args[1]), m.bigGet(args[2])
			return m.bigSet(args[0], f(m, a, b))
		}
	}
	reg(B+"Add", bin(func(m *Machine, a, b *Term) *Term { return m.in.Add(a, b) }))
	reg(B+"Sub", bin(func(m *Machine, a, b *Term) *Term { return m.in.Sub(a, b) }))
	reg(B+"Mul", bin(func(m *Machine, a, b *Term) *Term { return m.in.Mul(a, b) }))
	divz := func(m *Machine, b *Term) {
		m.checkPanic(m.in.Eq(b, m.in.I64(0)), "div-by-zero")
	}
	reg(B+"Quo", bin(func(m *Machine, a, b *Term) *Term { divz(m, b); return m.in.TQuo(a, b) }))
	reg(B+"Rem", bin(func(m *Machine, a, b *Term) *Term { divz(m, b); return m.in.TRem(a, b) }))
	reg(B+"Div", bin(func(m *Machine, a, b *Term) *Term { divz(m, b); return m.in.Div(a, b) }))
	reg(B+"Mod", bin(func(m *Machine, a, b *Term) *Term { divz(m, b); return m.in.Mod(a, b) }))
	reg(B+"QuoRem", func(m *Machine, fn *ssa.Function, args []Value) Value {
		a, b := m.bigGet(args[1]), m.bigGet(args[2])
		divz(m, b)
		q, r := m.in.TQuo(a, b), m.in.TRem(a, b)
		m.bigSet(args[3], r)
		return TupleVal{m.bigSet(args[0], q), args[3]}
	})
	reg(B+"Set", func(m *Machine, fn *ssa.Function, args []Value) Value {
		return m.bigSet(args[0], m.bigGet(args[1]))
	})
	reg(B+"SetInt64", func(m *Machine, fn *ssa.Function, args []Value) Value {
		return m.bigSet(args[0], args[1].(*Term))
	})
	reg(B+"SetUint64", func(m *Machine, fn *ssa.Function, args []Value) Value {
		return m.bigSet(args[0], args[1].(*Term))
	})
	reg(B+"Neg", func(m *Machine, fn *ssa.Function, args []Value) Value {
		return m.bigSet(args[0], m.in.Neg(m.bigGet(args[1])))
	})
	reg(B+"Abs", func(m *Machine, fn *ssa.Function, args []Value) Value {
		return m.bigSet(args[0], m.absT(m.bigGet(args[1])))
	})
	reg(B+"Cmp", func(m *Machine, fn *ssa.Function, args []Value) Value {
		a, b := m.bigGet(args[0]), m.bigGet(args[1])
		return m.signT(m.in.Sub(a, b))
	})
	reg(B+"CmpAbs", func(m *Machine, fn *ssa.Function, args []Value) Value {
		a, b := m.absT(m.bigGet(args[0])), m.absT(m.bigGet(args[1]))
		return m.signT(m.in.Sub(a, b))
	})
	reg(B+"Sign", func(m *Machine, fn *ssa.Function, args []Value) Value {
		return m.signT(m.bigGet(args[0]))
	})
	reg(B+"Int64", func(m *Machine, fn *ssa.Function, args []Value) Value {
		return m.wrap(m.bigGet(args[0]), intInfo{64, true})
	})
	reg(B+"Uint64", func(m *Machine, fn *ssa.Function, args []Value) Value {
		return m.wrap(m.absT(m.bigGet(args[0])), intInfo{64, false})
	})
	reg(B+"IsInt64", func(m *Machine, fn *ssa.Function, args []Value) Value {
		lo, hi := intRange(intInfo{64, true})
		a := m.bigGet(args[0])
		return m.in.And(m.in.Le(m.in.Int(lo), a), m.in.Le(a, m.in.Int(hi)))
	})
	reg(B+"IsUint64", func(m *Machine, fn *ssa.Function, args []Value) Value {
		_, hi := intRange(intInfo{64, false})
		a := m.bigGet(args[0])
		return m.in.And(m.in.Le(m.in.I64(0), a), m.in.Le(a, m.in.Int(hi)))
	})
	reg(B+"BitLen", func(m *Machine, fn *ssa.Function, args []Value) Value {
		a := m.absT(m.bigGet(args[0]))
		if a.IsConst() {
			return m.in.I64(int64(a.iv.BitLen()))
		}
		// The SDK only compares BitLen against its 256/315-bit overflow limits. Overflow panics of
		// sdk.Int / sdk.Dec are outside the claim (amounts are bounded far below 2^255): BitLen of a
		// symbolic value is an unknown in [0, 255].
		bl := m.in.UF("bitlen", SInt, a)
		m.addPC(m.in.And(m.in.Le(m.in.I64(0), bl), m.in.Le(bl, m.in.I64(255))))
		// thresholds tie the unknown to the value: |x| < 2^k  =>  BitLen <= k, |x| >= 2^k => BitLen > k
		for _, k := range []uint{1, 32, 64, 100, 128, 192} {
			lim := m.in.Int(new(big.Int).Lsh(big.NewInt(1), k))
			below := m.in.Lt(a, lim)
			m.addPC(m.in.Or(m.in.Not(below), m.in.Le(bl, m.in.I64(int64(k)))))
			m.addPC(m.in.Or(below, m.in.Gt(bl, m.in.I64(int64(k)))))
		}
		return bl
	})
	reg(B+"Bit", func(m *Machine, fn *ssa.Function, args []Value) Value {
		a := m.absT(m.bigGet(args[0]))
		k := m.concretize(args[1].(*Term), 0, 512, "Bit index")
		return m.in.Mod(m.in.Div(a, m.in.Int(new(big.Int).Lsh(big.NewInt(1), uint(k)))), m.in.I64(2))
	})
	reg(B+"Rsh", func(m *Machine, fn *ssa.Function, args []Value) Value {
		a := m.bigGet(args[1])
		n := m.concretize(args[2].(*Term), 0, 64, "Rsh count")
		return m.bigSet(args[0], m.in.Div(a, m.in.Int(new(big.Int).Lsh(big.NewInt(1), uint(n)))))
	})
	reg(B+"Lsh", func(m *Machine, fn *ssa.Function, args []Value) Value {
		a := m.bigGet(args[1])
		n := m.concretize(args[2].(*Term), 0, 64, "Lsh count")
		return m.bigSet(args[0], m.in.Mul(a, m.in.Int(new(big.Int).Lsh(big.NewInt(1), uint(n)))))
	})
	reg(B+"Exp", func(m *Machine, fn *ssa.Function, args []Value) Value {
		x, y, mod := m.bigGet(args[1]), m.bigGet(args[2]), args[3]
		if !x.IsConst() || !y.IsConst() {
			m.unsupported("big.Int.Exp with symbolic operands")
		}
		var mv *big.Int
		if p := m.force(mod).(Pointer); p.cell != nil {
			mt := m.bigGet(mod)
			if !mt.IsConst() {
				m.unsupported("big.Int.Exp with symbolic modulus")
			}
			mv = mt.iv
		}
		return m.bigSet(args[0], m.in.Int(new(big.Int).Exp(x.iv, y.iv, mv)))
	})
	reg(B+"SetBytes", func(m *Machine, fn *ssa.Function, args []Value) Value {
		b := m.toBytes(args[1])
		// big-endian unsigned value of the bytes
		if len(b.segs) == 0 {
			return m.bigSet(args[0], m.in.I64(0))
		}
		if len(b.segs) == 1 {
			switch b.segs[0].k {
			case SegLit:
				return m.bigSet(args[0], m.in.Int(new(big.Int).SetBytes([]byte(b.segs[0].lit))))
			case SegBE64:
				return m.bigSet(args[0], b.segs[0].t)
			case SegUF, SegStr:
				v := m.in.UF("bytes2nat", SInt, b.segs[0].t)
				m.addPC(m.in.Le(m.in.I64(0), v))
				// the empty string is zero
				m.addPC(m.in.Implies(m.in.Eq(m.in.StrLen(b.segs[0].t), m.in.I64(0)), m.in.Eq(v, m.in.I64(0))))
				return m.bigSet(args[0], v)
			}
		}
		sl := m.bytesToCells(b)
		r := m.in.I64(0)
		for i := 0; i < sl.len; i++ {
			r = m.in.Add(m.in.Mul(r, m.in.I64(256)), sl.cell.elems[sl.off+i].(*Term))
		}
		return m.bigSet(args[0], r)
	})
	reg(B+"SetString", func(m *Machine, fn *ssa.Function, args []Value) Value {
		s := args[1].(*Term)
		base := args[2].(*Term)
		if s.IsConst() && base.IsConst() {
			v, ok := new(big.Int).SetString(s.sv, int(base.iv.Int64()))
			if !ok {
				return TupleVal{Pointer{}, m.in.Bool(false)}
			}
			return TupleVal{m.bigSet(args[0], m.in.Int(v)), m.in.Bool(true)}
		}
		// symbolic decimal string: valid iff str.to_int >= 0 (non-negative decimal digits only)
		n := m.in.mk("str.to_int", SInt, []*Term{s}, "", nil)
		ok := m.in.Ge(n, m.in.I64(0))
		if m.branch(ok) {
			return TupleVal{m.bigSet(args[0], n), m.in.Bool(true)}
		}
		// negative numbers / invalid strings: treat "-digits" as valid negative
		neg := m.in.And(m.in.StrPrefixOf(m.in.Str("-"), s))
		if m.branch(neg) {
			rest := m.in.StrSubstr(s, m.in.I64(1), m.in.StrLen(s))
			n2 := m.in.mk("str.to_int", SInt, []*Term{rest}, "", nil)
			if m.branch(m.in.Ge(n2, m.in.I64(0))) {
				return TupleVal{m.bigSet(args[0], m.in.Neg(n2)), m.in.Bool(true)}
			}
		}
		return TupleVal{Pointer{}, m.in.Bool(false)}
	})
	reg(B+"String", func(m *Machine, fn *ssa.Function, args []Value) Value {
		p := m.force(args[0]).(Pointer)
		if p.cell == nil {
			return m.in.Str("<nil>")
		}
		a := m.bigGet(args[0])
		if a.IsConst() {
			return m.in.Str(a.iv.String())
		}
		return m.in.Ite(m.in.Lt(a, m.in.I64(0)), m.in.Concat(m.in.Str("-"), m.in.StrFromInt(m.in.Neg(a))), m.in.StrFromInt(a))
	})
	reg(B+"Text", func(m *Machine, fn *ssa.Function, args []Value) Value {
		a := m.bigGet(args[0])
		if a.IsConst() {
			return m.in.Str(a.iv.Text(int(args[1].(*Term).iv.Int64())))
		}
		return m.in.Ite(m.in.Lt(a, m.in.I64(0)), m.in.Concat(m.in.Str("-"), m.in.StrFromInt(m.in.Neg(a))), m.in.StrFromInt(a))
	})
	reg(B+"Bytes", func(m *Machine, fn *ssa.Function, args []Value) Value {
		a := m.bigGet(args[0])
		if a.IsConst() {
			return &BytesVal{segs: litSegs(string(new(big.Int).Abs(a.iv).Bytes()))}
		}
		return &BytesVal{segs: []Seg{{k: SegUF, t: m.in.UF("nat2bytes", SString, m.absT(a))}}}
	})
	reg(B+"MarshalText", func(m *Machine, fn *ssa.Function, args []Value) Value {
		a := m.bigGet(args[0])
		var s *Term
		if a.IsConst() {
			s = m.in.Str(a.iv.String())
		} else {
			s = m.in.Ite(m.in.Lt(a, m.in.I64(0)), m.in.Concat(m.in.Str("-"), m.in.StrFromInt(m.in.Neg(a))), m.in.StrFromInt(a))
		}
		return TupleVal{m.toBytes(s), nilIface}
	})
	reg("math/big.NewInt", func(m *Machine, fn *ssa.Function, args []Value) Value {
		return m.newBig(args[0].(*Term))
	})
	// big.Float is only used in GetRewardAge: SetInt(x).Float64()
	reg("(*math/big.Float).SetInt", func(m *Machine, fn *ssa.Function, args []Value) Value {
		p := m.force(args[0]).(Pointer)
		m.store(p, &BigVal{t: m.bigGet(args[1])})
		return p
	})
	reg("(*math/big.Float).Float64", func(m *Machine, fn *ssa.Function, args []Value) Value {
		p := m.force(args[0]).(Pointer)
		bv := m.load(p).(*BigVal)
		return TupleVal{m.in.ToReal(bv.t), m.in.I64(0)}
	})
}
