package main

// appinfo: module-account permissions are read from /repo/app/app.go on every run (type-checked
// against export data; no SSA for the 600-package app closure is needed for this).

import (
	"fmt"
	"go/ast"
	"go/constant"
	"go/types"
	"os"
	"sort"
	"strings"
	"sync"

	"golang.org/x/tools/go/packages"
	"golang.org/x/tools/go/ssa"
)

type AppInfo struct {
	once  sync.Once
	perms map[string][]string
	err   error
	repo  string
	hrp   string
}

func (a *AppInfo) prefix() string {
	a.load()
	if a.hrp == "" {
		return "cosmos"
	}
	return a.hrp
}

func (a *AppInfo) load() {
	a.once.Do(func() {
		cfg := &packages.Config{Mode: packages.LoadSyntax, Dir: a.repo, Env: append(os.Environ(), "GOFLAGS=-mod=mod", "GOPROXY=off", "GOSUMDB=off", "GOTOOLCHAIN=local")}
		pkgs, err := packages.Load(cfg, "github.com/SaoNetwork/sao/app")
		if err != nil || len(pkgs) != 1 {
			a.err = fmt.Errorf("loading app package: %v", err)
			return
		}
		p := pkgs[0]
		if len(p.Errors) > 0 {
			a.err = fmt.Errorf("app package errors: %v", p.Errors[0])
			return
		}
		if o := p.Types.Scope().Lookup("AccountAddressPrefix"); o != nil {
			if c, ok := o.(*types.Const); ok {
				a.hrp = constant.StringVal(c.Val())
			}
		}
		perms := map[string][]string{}
		found := false
		for _, f := range p.Syntax {
			ast.Inspect(f, func(n ast.Node) bool {
				vs, ok := n.(*ast.ValueSpec)
				if !ok {
					return true
				}
				for i, nm := range vs.Names {
					if nm.Name != "maccPerms" || i >= len(vs.Values) {
						continue
					}
					cl, ok := vs.Values[i].(*ast.CompositeLit)
					if !ok {
						continue
					}
					found = true
					for _, e := range cl.Elts {
						kv, ok := e.(*ast.KeyValueExpr)
						if !ok {
							continue
						}
						tv := p.TypesInfo.Types[kv.Key]
						if tv.Value == nil {
							continue
						}
						name := constant.StringVal(tv.Value)
						perms[name] = []string{}
						if c, ok := kv.Value.(*ast.CompositeLit); ok {
							for _, pe := range c.Elts {
								if v := p.TypesInfo.Types[pe].Value; v != nil {
									perms[name] = append(perms[name], constant.StringVal(v))
								}
							}
						}
					}
				}
				return true
			})
		}
		if !found {
			a.err = fmt.Errorf("maccPerms literal not found in app package")
			return
		}
		a.perms = perms
	})
}

func (m *Machine) maccPerms() map[string][]string {
	a := m.eng.app
	a.load()
	if a.err != nil {
		m.unsupported("appinfo: %v", a.err)
	}
	return a.perms
}

func init() {
	reg(symPkg+"ModuleRegistered", func(m *Machine, fn *ssa.Function, args []Value) Value {
		_, ok := m.maccPerms()[m.constStr(args[0], "module name")]
		return m.in.Bool(ok)
	})
	reg(symPkg+"ModuleHasPerm", func(m *Machine, fn *ssa.Function, args []Value) Value {
		ps := m.maccPerms()[m.constStr(args[0], "module name")]
		want := m.constStr(args[1], "permission")
		for _, p := range ps {
			if p == want {
				return m.in.Bool(true)
			}
		}
		return m.in.Bool(false)
	})
	// BlockedAddr(addr): module accounts except gov cannot receive through SendCoinsFromModuleToAccount
	reg(symPkg+"BlockedAddr", func(m *Machine, fn *ssa.Function, args []Value) Value {
		addr := args[0].(*Term)
		r := m.in.Bool(false)
		var names []string
		for name := range m.maccPerms() {
			names = append(names, name)
		}
		sort.Strings(names)
		for _, name := range names {
			if name == "gov" {
				continue
			}
			r = m.in.Or(r, m.in.Eq(addr, m.in.Str("mod:"+name)))
		}
		if addr.IsConst() {
			return m.in.Bool(strings.HasPrefix(addr.sv, "mod:") && r.IsConst() && r.bv)
		}
		return r
	})
	// InitBalance(addr, denom): open-world initial bank balance (non-negative)
	reg(symPkg+"InitBalance", func(m *Machine, fn *ssa.Function, args []Value) Value {
		addr, denom := args[0].(*Term), args[1].(*Term)
		v := m.freshBig(fmt.Sprintf("bal%d", len(m.w.bankInit)))
		m.addPC(m.in.Le(m.in.I64(0), v))
		if b := m.eng.cfg.BigAbsBound; b != nil {
			m.addPC(m.in.Le(v, m.in.Int(b)))
		}
		m.w.bankInit = append(m.w.bankInit, BankInit{addr, denom, v})
		return m.newBig(v)
	})
	reg(symPkg+"NonNegBig", func(m *Machine, fn *ssa.Function, args []Value) Value {
		name := m.constStr(args[0], "name")
		v := m.freshBig("nd." + name)
		m.addPC(m.in.Le(m.in.I64(0), v))
		if b := m.eng.cfg.BigAbsBound; b != nil {
			m.addPC(m.in.Le(v, m.in.Int(b)))
		}
		bv := &BigVal{t: v}
		m.nondets = append(m.nondets, NondetRec{Name: name, Val: bv, Typ: m.eng.bigIntType})
		c := m.newCell(m.eng.bigIntType, 1, name)
		c.elems[0] = bv
		return Pointer{cell: c}
	})
	reg(symPkg+"DecNonNeg", func(m *Machine, fn *ssa.Function, args []Value) Value {
		name := m.constStr(args[0], "name")
		dt := fn.Signature.Results().At(0).Type()
		v := m.nondet(name, dt).(*StructVal)
		p := v.f[0].(Pointer)
		m.addPC(m.in.Le(m.in.I64(0), p.cell.elems[0].(*BigVal).t))
		return v
	})
	reg(symPkg+"DeclareRawString", func(m *Machine, fn *ssa.Function, args []Value) Value {
		m.w.schemas = append(m.w.schemas, &Schema{store: m.constStr(args[0], "store"), prefix: m.constStr(args[1], "prefix"), rawLen: -1})
		return nil
	})
}

type BankInit struct {
	addr, denom, val *Term
}
