package main

import (
	"fmt"
	"go/constant"
	"go/token"
	"go/types"
	"math/big"
	"os"
	"strings"

	"golang.org/x/tools/go/ssa"
)

const maxDepth = 400

func (m *Machine) posOf(i ssa.Instruction) string {
	p := i.Pos()
	if !p.IsValid() {
		return ""
	}
	ps := m.eng.prog.Fset.Position(p)
	return fmt.Sprintf("%s:%d", ps.Filename, ps.Line)
}

// callFn executes an SSA function body.
func (m *Machine) callFn(fn *ssa.Function, args []Value, caps []Value, site string) (ret Value) {
	if fn.Blocks == nil {
		m.unsupported("call of function without body: %s", fn.String())
	}
	m.depth++
	if m.depth > maxDepth {
		m.abort("budget", "call depth exceeded in %s", fn.String())
	}
	m.funcs[fn.String()]++
	fr := &Frame{fn: fn, env: make(map[ssa.Value]Value, 32), caller: m.frame}
	m.frame = fr
	if len(args) != len(fn.Params) {
		m.unsupported("arity mismatch calling %s: %d args for %d params", fn.String(), len(args), len(fn.Params))
	}
	for i, p := range fn.Params {
		fr.env[p] = args[i]
	}
	if len(caps) != len(fn.FreeVars) {
		m.unsupported("closure capture mismatch in %s", fn.String())
	}
	for i, fv := range fn.FreeVars {
		fr.env[fv] = caps[i]
	}
	defer func() {
		m.depth--
		if r := recover(); r != nil {
			gp, ok := r.(*goPanic)
			if !ok {
				m.frame = fr.caller
				panic(r)
			}
			fr.panicking = gp
			m.frame = fr
			m.runDefers(fr)
			if fr.panicking != nil {
				m.frame = fr.caller
				panic(fr.panicking)
			}
			// recovered
			if fn.Recover != nil {
				ret = m.runBlocks(fr, fn.Recover)
			} else {
				ret = m.zeroResults(fn)
			}
		}
		m.frame = fr.caller
	}()
	ret = m.runBlocks(fr, fn.Blocks[0])
	return ret
}

func (m *Machine) zeroResults(fn *ssa.Function) Value {
	res := fn.Signature.Results()
	switch res.Len() {
	case 0:
		return nil
	case 1:
		return m.zero(res.At(0).Type())
	}
	tv := make(TupleVal, res.Len())
	for i := range tv {
		tv[i] = m.zero(res.At(i).Type())
	}
	return tv
}

func (m *Machine) runDefers(fr *Frame) {
	for len(fr.defers) > 0 {
		d := fr.defers[len(fr.defers)-1]
		fr.defers = fr.defers[:len(fr.defers)-1]
		m.invoke(d.call, d.fn, d.args, d.pos, true)
	}
}

func (m *Machine) runBlocks(fr *Frame, start *ssa.BasicBlock) Value {
	var prev *ssa.BasicBlock
	b := start
	for {
		var next *ssa.BasicBlock
		if traceFn != "" && strings.Contains(fr.fn.String(), traceFn) {
			fmt.Fprintf(os.Stderr, "  BLOCK %s #%d %s (trace len %d)\n", fr.fn.Name(), b.Index, b.Comment, len(m.trace))
		}
		// loop bound accounting on back edges: count entries of each block per frame-less key
		for _, ins := range b.Instrs {
			m.steps++
			if m.steps > m.stepLimit {
				m.abort("budget", "step limit exceeded at %s", m.repoSite())
			}
			if p := m.posOf(ins); p != "" {
				fr.site = p
			}
			switch i := ins.(type) {
			case *ssa.Phi:
				for k, pb := range b.Preds {
					if pb == prev {
						fr.env[i] = m.get(fr, i.Edges[k])
						break
					}
				}
			case *ssa.Jump:
				next = b.Succs[0]
			case *ssa.If:
				c := m.get(fr, i.Cond).(*Term)
				if m.branch(c) {
					next = b.Succs[0]
				} else {
					next = b.Succs[1]
				}
			case *ssa.Return:
				var ret Value
				switch len(i.Results) {
				case 0:
				case 1:
					ret = m.get(fr, i.Results[0])
				default:
					tv := make(TupleVal, len(i.Results))
					for k, r := range i.Results {
						tv[k] = m.get(fr, r)
					}
					ret = tv
				}
				return ret
			case *ssa.Panic:
				v := m.get(fr, i.X)
				panic(&goPanic{kind: "explicit", val: v, site: m.repoSite()})
			case *ssa.RunDefers:
				m.runDefers(fr)
			default:
				m.step(fr, ins)
			}
		}
		if next == nil {
			m.unsupported("block without terminator in %s", fr.fn)
		}
		// back edge => loop iteration accounting
		if next.Index <= b.Index {
			if fr.loops == nil {
				fr.loops = map[*ssa.BasicBlock]int{}
			}
			fr.loops[next]++
			if fr.loops[next] > m.eng.cfg.Unwind {
				m.onUnwind(fr)
				panic(&pathAbort{kind: "unwind", reason: fmt.Sprintf("loop bound %d exceeded at %s (%s)", m.eng.cfg.Unwind, fr.site, fr.fn.String())})
			}
		} else if fr.loops != nil && fr.loops[next] > 0 {
			fr.loops[next] = 0
		}
		prev = b
		b = next
	}
}

func (m *Machine) get(fr *Frame, v ssa.Value) Value {
	switch x := v.(type) {
	case *ssa.Const:
		return m.constVal(x)
	case *ssa.Global:
		return Pointer{cell: m.globalCell(x)}
	case *ssa.Function:
		return &FuncVal{fn: x}
	case *ssa.Builtin:
		return &FuncVal{intr: "builtin:" + x.Name()}
	}
	r, ok := fr.env[v]
	if !ok {
		m.unsupported("unbound ssa value %s in %s", v.Name(), fr.fn.String())
	}
	return r
}

func (m *Machine) constVal(c *ssa.Const) Value {
	t := c.Type()
	if c.Value == nil {
		return m.zero(t)
	}
	switch c.Value.Kind() {
	case constant.Bool:
		return m.in.Bool(constant.BoolVal(c.Value))
	case constant.String:
		return m.in.Str(constant.StringVal(c.Value))
	case constant.Int:
		if isFloat(t) {
			r, _ := new(big.Rat).SetString(c.Value.ExactString())
			return m.in.Real(r)
		}
		bi, _ := new(big.Int).SetString(c.Value.ExactString(), 10)
		return m.in.Int(bi)
	case constant.Float:
		if _, ok := intInfoOf(t); ok {
			bi, _ := new(big.Int).SetString(constant.ToInt(c.Value).ExactString(), 10)
			return m.in.Int(bi)
		}
		r, ok := new(big.Rat).SetString(c.Value.ExactString())
		if !ok {
			f, _ := constant.Float64Val(c.Value)
			r = new(big.Rat).SetFloat64(f)
		}
		if b, ok2 := under(t).(*types.Basic); ok2 && b.Kind() == types.Float32 {
			f, _ := r.Float32()
			r = new(big.Rat).SetFloat64(float64(f))
		}
		return m.in.Real(r)
	}
	m.unsupported("const kind %v", c.Value.Kind())
	return nil
}

func (m *Machine) step(fr *Frame, ins ssa.Instruction) {
	switch i := ins.(type) {
	case *ssa.DebugRef:
	case *ssa.Alloc:
		et := i.Type().(*types.Pointer).Elem()
		if at, ok := under(et).(*types.Array); ok && !isNamed(et, "math/big", "Int") {
			n := int(at.Len())
			c := m.newCell(at.Elem(), n, i.Comment)
			for k := range c.elems {
				c.elems[k] = m.zero(at.Elem())
			}
			fr.env[i] = Pointer{cell: c, arr: true}
			break
		}
		c := m.newCell(et, 1, i.Comment)
		c.elems[0] = m.zero(et)
		fr.env[i] = Pointer{cell: c}
	case *ssa.UnOp:
		fr.env[i] = m.unop(fr, i)
	case *ssa.BinOp:
		x, y := m.get(fr, i.X), m.get(fr, i.Y)
		fr.env[i] = m.binop(i.Op, x, y, i.X.Type(), i.Type())
	case *ssa.Store:
		p := m.force(m.get(fr, i.Addr)).(Pointer)
		m.store(p, m.get(fr, i.Val))
	case *ssa.FieldAddr:
		p := m.force(m.get(fr, i.X)).(Pointer)
		if p.cell == nil {
			m.goPanicf("nil-deref", "nil pointer dereference (field)")
		}
		fr.env[i] = extendPath(p, i.Field)
	case *ssa.Field:
		s := m.get(fr, i.X).(*StructVal)
		fr.env[i] = s.f[i.Field]
	case *ssa.IndexAddr:
		fr.env[i] = m.indexAddr(fr, i)
	case *ssa.Index:
		fr.env[i] = m.index(fr, i)
	case *ssa.Call:
		fnv, args := m.prepareCall(fr, &i.Call)
		r := m.invoke(&i.Call, fnv, args, m.posOf(i), false)
		fr.env[i] = r
	case *ssa.Defer:
		fnv, args := m.prepareCall(fr, &i.Call)
		fr.defers = append(fr.defers, deferred{fn: fnv, args: args, call: &i.Call, pos: m.posOf(i)})
	case *ssa.Go:
		m.unsupported("go statement at %s", m.posOf(i))
	case *ssa.Extract:
		t := m.get(fr, i.Tuple).(TupleVal)
		fr.env[i] = t[i.Index]
	case *ssa.MakeInterface:
		fr.env[i] = &IfaceVal{t: i.X.Type(), v: m.get(fr, i.X)}
	case *ssa.ChangeInterface:
		fr.env[i] = m.get(fr, i.X)
	case *ssa.ChangeType:
		fr.env[i] = m.get(fr, i.X)
	case *ssa.Convert:
		fr.env[i] = m.convert(m.get(fr, i.X), i.X.Type(), i.Type())
	case *ssa.MultiConvert:
		fr.env[i] = m.convert(m.get(fr, i.X), i.X.Type(), i.Type())
	case *ssa.TypeAssert:
		fr.env[i] = m.typeAssert(fr, i)
	case *ssa.MakeClosure:
		caps := make([]Value, len(i.Bindings))
		for k, b := range i.Bindings {
			caps[k] = m.get(fr, b)
		}
		fr.env[i] = &FuncVal{fn: i.Fn.(*ssa.Function), caps: caps}
	case *ssa.MakeSlice:
		ln := m.get(fr, i.Len).(*Term)
		cp := m.get(fr, i.Cap).(*Term)
		n := m.concretize(ln, 0, m.eng.cfg.MaxMake, "make len")
		cn := m.concretize(cp, 0, 1<<20, "make cap")
		if cn < n {
			cn = n
		}
		if cn > 4096 {
			cn = n
		}
		et := under(i.Type()).(*types.Slice).Elem()
		c := m.newCell(et, cn, "make")
		for k := range c.elems {
			c.elems[k] = m.zero(et)
		}
		fr.env[i] = &SliceVal{cell: c, len: n, cap: cn}
	case *ssa.MakeMap:
		mt := under(i.Type()).(*types.Map)
		m.nextCell++
		fr.env[i] = &MapVal{m: &MapObj{id: m.nextCell, kt: mt.Key(), vt: mt.Elem()}}
	case *ssa.MapUpdate:
		mv := m.get(fr, i.Map).(*MapVal)
		if mv.m == nil {
			m.goPanicf("nil-map", "assignment to entry in nil map")
		}
		m.mapUpdate(mv.m, m.get(fr, i.Key), m.get(fr, i.Value))
	case *ssa.Lookup:
		fr.env[i] = m.lookup(fr, i)
	case *ssa.Slice:
		fr.env[i] = m.sliceOp(fr, i)
	case *ssa.Range:
		fr.env[i] = m.rangeOp(fr, i)
	case *ssa.Next:
		fr.env[i] = m.nextOp(fr, i)
	case *ssa.SliceToArrayPointer:
		m.unsupported("slice to array pointer")
	case *ssa.MakeChan, *ssa.Send, *ssa.Select:
		m.unsupported("channel operation at %s", m.posOf(ins))
	default:
		m.unsupported("instruction %T", ins)
	}
}

// ---- operators

func (m *Machine) unop(fr *Frame, i *ssa.UnOp) Value {
	x := m.get(fr, i.X)
	switch i.Op {
	case token.MUL: // load
		p := m.force(x).(Pointer)
		return m.load(p)
	case token.NOT:
		return m.in.Not(x.(*Term))
	case token.SUB:
		t := x.(*Term)
		if info, ok := intInfoOf(i.Type()); ok {
			return m.wrap(m.in.Neg(t), info)
		}
		return m.in.Neg(t)
	case token.XOR:
		t := x.(*Term)
		info, _ := intInfoOf(i.Type())
		if info.signed {
			return m.in.Sub(m.in.I64(-1), t)
		}
		_, hi := intRange(info)
		return m.in.Sub(m.in.Int(hi), t)
	case token.ARROW:
		m.unsupported("channel receive")
	}
	m.unsupported("unop %s", i.Op)
	return nil
}

func (m *Machine) wrap(t *Term, info intInfo) *Term {
	lo, hi := intRange(info)
	if t.IsConst() {
		if t.iv.Cmp(lo) >= 0 && t.iv.Cmp(hi) <= 0 {
			return t
		}
		mod := new(big.Int).Lsh(big.NewInt(1), uint(info.bits))
		v := new(big.Int).Sub(t.iv, lo)
		v.Mod(v, mod)
		v.Add(v, lo)
		return m.in.Int(v)
	}
	mod := m.in.Int(new(big.Int).Lsh(big.NewInt(1), uint(info.bits)))
	if info.signed {
		return m.in.Add(m.in.Mod(m.in.Sub(t, m.in.Int(lo)), mod), m.in.Int(lo))
	}
	return m.in.Mod(t, mod)
}

// wrap1 handles results known to be within one modulus of the range (add/sub of in-range operands).
func (m *Machine) wrap1(t *Term, info intInfo) *Term {
	if t.IsConst() {
		return m.wrap(t, info)
	}
	lo, hi := intRange(info)
	mod := m.in.Int(new(big.Int).Lsh(big.NewInt(1), uint(info.bits)))
	return m.in.Ite(m.in.Gt(t, m.in.Int(hi)), m.in.Sub(t, mod), m.in.Ite(m.in.Lt(t, m.in.Int(lo)), m.in.Add(t, mod), t))
}

func (m *Machine) bitop(op token.Token, a, b *Term, info intInfo) *Term {
	// both const handled by caller. Unsigned decomposition over bits; signed handled via offset to unsigned.
	toU := func(t *Term) *Term {
		if !info.signed {
			return t
		}
		mod := m.in.Int(new(big.Int).Lsh(big.NewInt(1), uint(info.bits)))
		return m.in.Ite(m.in.Lt(t, m.in.I64(0)), m.in.Add(t, mod), t)
	}
	ua, ub := toU(a), toU(b)
	bits := info.bits
	// restrict to the bits that can matter when one side is constant
	var mask *big.Int
	if b.IsConst() {
		mask = ub.iv
	} else if a.IsConst() {
		mask = ua.iv
		ua, ub = ub, ua
	}
	res := m.in.I64(0)
	bit := func(t *Term, k int) *Term {
		if t.IsConst() {
			return m.in.I64(int64(t.iv.Bit(k)))
		}
		return m.in.Mod(m.in.Div(t, m.in.Int(new(big.Int).Lsh(big.NewInt(1), uint(k)))), m.in.I64(2))
	}
	one := m.in.I64(1)
	for k := 0; k < bits; k++ {
		p := m.in.Int(new(big.Int).Lsh(big.NewInt(1), uint(k)))
		switch op {
		case token.AND:
			if mask != nil {
				if mask.Bit(k) == 0 {
					continue
				}
				res = m.in.Add(res, m.in.Mul(bit(ua, k), p))
			} else {
				res = m.in.Add(res, m.in.Ite(m.in.And(m.in.Eq(bit(ua, k), one), m.in.Eq(bit(ub, k), one)), p, m.in.I64(0)))
			}
		case token.OR:
			if mask != nil {
				if mask.Bit(k) == 1 {
					res = m.in.Add(res, p)
				} else {
					res = m.in.Add(res, m.in.Mul(bit(ua, k), p))
				}
			} else {
				res = m.in.Add(res, m.in.Ite(m.in.Or(m.in.Eq(bit(ua, k), one), m.in.Eq(bit(ub, k), one)), p, m.in.I64(0)))
			}
		case token.XOR:
			if mask != nil {
				if mask.Bit(k) == 1 {
					res = m.in.Add(res, m.in.Mul(m.in.Sub(one, bit(ua, k)), p))
				} else {
					res = m.in.Add(res, m.in.Mul(bit(ua, k), p))
				}
			} else {
				res = m.in.Add(res, m.in.Ite(m.in.Eq(bit(ua, k), bit(ub, k)), m.in.I64(0), p))
			}
		case token.AND_NOT:
			if mask != nil && b.IsConst() {
				if mask.Bit(k) == 1 {
					continue
				}
				res = m.in.Add(res, m.in.Mul(bit(ua, k), p))
			} else {
				res = m.in.Add(res, m.in.Ite(m.in.And(m.in.Eq(bit(toU(a), k), one), m.in.Eq(bit(toU(b), k), m.in.I64(0))), p, m.in.I64(0)))
			}
		}
	}
	if info.signed {
		return m.wrap(res, info)
	}
	return res
}

func (m *Machine) binop(op token.Token, x, y Value, xt types.Type, rt types.Type) Value {
	switch op {
	case token.EQL:
		return m.equal(x, y, xt)
	case token.NEQ:
		return m.in.Not(m.equal(x, y, xt))
	}
	a, ok1 := x.(*Term)
	b, ok2 := y.(*Term)
	if !ok1 || !ok2 {
		m.unsupported("binop %s on %T,%T", op, x, y)
	}
	if isString(xt) {
		switch op {
		case token.ADD:
			return m.in.Concat(a, b)
		case token.LSS:
			return m.in.StrLt(a, b)
		case token.GTR:
			return m.in.StrLt(b, a)
		case token.LEQ:
			return m.in.Or(m.in.StrLt(a, b), m.in.Eq(a, b))
		case token.GEQ:
			return m.in.Or(m.in.StrLt(b, a), m.in.Eq(a, b))
		}
		m.unsupported("string binop %s", op)
	}
	if isFloat(xt) {
		switch op {
		case token.ADD:
			return m.in.Add(a, b)
		case token.SUB:
			return m.in.Sub(a, b)
		case token.MUL:
			return m.in.Mul(a, b)
		case token.QUO:
			return m.in.RDiv(a, b)
		case token.LSS:
			return m.in.Lt(a, b)
		case token.LEQ:
			return m.in.Le(a, b)
		case token.GTR:
			return m.in.Gt(a, b)
		case token.GEQ:
			return m.in.Ge(a, b)
		}
		m.unsupported("float binop %s", op)
	}
	if isBool(xt) {
		switch op {
		case token.AND, token.LAND:
			return m.in.And(a, b)
		case token.OR, token.LOR:
			return m.in.Or(a, b)
		}
	}
	info, ok := intInfoOf(xt)
	if !ok {
		m.unsupported("binop %s on type %s", op, xt)
	}
	switch op {
	case token.LSS:
		return m.in.Lt(a, b)
	case token.LEQ:
		return m.in.Le(a, b)
	case token.GTR:
		return m.in.Gt(a, b)
	case token.GEQ:
		return m.in.Ge(a, b)
	case token.ADD:
		return m.wrap1(m.in.Add(a, b), info)
	case token.SUB:
		return m.wrap1(m.in.Sub(a, b), info)
	case token.MUL:
		return m.wrap(m.in.Mul(a, b), info)
	case token.QUO:
		m.checkPanic(m.in.Eq(b, m.in.I64(0)), "div-by-zero")
		if info.signed {
			return m.wrap(m.in.TQuo(a, b), info)
		}
		return m.in.Div(a, b)
	case token.REM:
		m.checkPanic(m.in.Eq(b, m.in.I64(0)), "div-by-zero")
		if info.signed {
			return m.in.TRem(a, b)
		}
		return m.in.Mod(a, b)
	case token.AND, token.OR, token.XOR, token.AND_NOT:
		if a.IsConst() && b.IsConst() {
			ua, ub := toUnsigned(a.iv, info), toUnsigned(b.iv, info)
			r := new(big.Int)
			switch op {
			case token.AND:
				r.And(ua, ub)
			case token.OR:
				r.Or(ua, ub)
			case token.XOR:
				r.Xor(ua, ub)
			case token.AND_NOT:
				r.AndNot(ua, ub)
			}
			return m.wrap(m.in.Int(r), info)
		}
		return m.bitop(op, a, b, info)
	case token.SHL, token.SHR:
		// shift count: concretise
		n := m.concretize(b, 0, 64, "shift count")
		p := m.in.Int(new(big.Int).Lsh(big.NewInt(1), uint(n)))
		if op == token.SHL {
			return m.wrap(m.in.Mul(a, p), info)
		}
		return m.in.Div(a, p) // floor division == arithmetic shift for both signs
	}
	m.unsupported("int binop %s", op)
	return nil
}

func toUnsigned(v *big.Int, info intInfo) *big.Int {
	if v.Sign() >= 0 {
		return v
	}
	return new(big.Int).Add(v, new(big.Int).Lsh(big.NewInt(1), uint(info.bits)))
}

// equal implements Go == on arbitrary comparable values, returning a Bool term.
func (m *Machine) equal(x, y Value, t types.Type) *Term {
	x, y = m.force(x), m.force(y)
	switch a := x.(type) {
	case *Term:
		if b, ok := y.(*Term); ok {
			return m.in.Eq(a, b)
		}
	case Pointer:
		b, ok := y.(Pointer)
		if !ok {
			break
		}
		if a.cell != b.cell || a.idx != b.idx || len(a.path) != len(b.path) {
			return m.in.Bool(false)
		}
		for i := range a.path {
			if a.path[i] != b.path[i] {
				return m.in.Bool(false)
			}
		}
		return m.in.Bool(true)
	case *StructVal:
		b := y.(*StructVal)
		st := under(t).(*types.Struct)
		r := m.in.Bool(true)
		for i := range a.f {
			r = m.in.And(r, m.equal(a.f[i], b.f[i], st.Field(i).Type()))
		}
		return r
	case *ArrayVal:
		b := y.(*ArrayVal)
		et := under(t).(*types.Array).Elem()
		r := m.in.Bool(true)
		for i := range a.e {
			r = m.in.And(r, m.equal(a.e[i], b.e[i], et))
		}
		return r
	case *IfaceVal:
		b, ok := y.(*IfaceVal)
		if !ok {
			break
		}
		if a.t == nil || b.t == nil {
			return m.in.Bool(a.t == nil && b.t == nil)
		}
		if !types.Identical(a.t, b.t) {
			return m.in.Bool(false)
		}
		return m.equal(a.v, b.v, a.t)
	case *SliceVal: // only comparison with nil is legal
		return m.in.Bool(a.isNil)
	case *BytesVal:
		return m.in.Bool(a.isNil)
	case *MapVal:
		return m.in.Bool(a.m == nil)
	case *FuncVal:
		return m.in.Bool(a.isNil)
	case *Handle:
		if b, ok := y.(*Handle); ok {
			return m.in.Bool(a == b)
		}
		return m.in.Bool(false)
	}
	// comparisons against the nil constant of another representation
	if isNilValue(y) {
		return m.in.Bool(isNilValue(x))
	}
	if isNilValue(x) {
		return m.in.Bool(isNilValue(y))
	}
	m.unsupported("equality of %T and %T", x, y)
	return nil
}

func isNilValue(v Value) bool {
	switch a := v.(type) {
	case Pointer:
		return a.cell == nil
	case *SliceVal:
		return a.isNil
	case *BytesVal:
		return a.isNil
	case *MapVal:
		return a.m == nil
	case *IfaceVal:
		return a.t == nil
	case *FuncVal:
		return a.isNil
	}
	return false
}

// ---- conversions

func (m *Machine) convert(x Value, from, to types.Type) Value {
	from, to = types.Unalias(from), types.Unalias(to)
	if ti, ok := intInfoOf(to); ok {
		t, isT := x.(*Term)
		if !isT {
			m.unsupported("convert %T to int", x)
		}
		if fi, ok := intInfoOf(from); ok {
			if fi == ti {
				return t
			}
			// widening that preserves value
			if (fi.signed == ti.signed && ti.bits >= fi.bits) || (!fi.signed && ti.signed && ti.bits > fi.bits) {
				return t
			}
			if fi.bits == ti.bits {
				return m.wrap1(t, ti)
			}
			return m.wrap(t, ti)
		}
		if isFloat(from) {
			// truncation toward zero
			if t.IsConst() {
				n := new(big.Int).Quo(t.rv.Num(), t.rv.Denom())
				return m.wrap(m.in.Int(n), ti)
			}
			fl := m.in.ToInt(t)
			tr := m.in.Ite(m.in.Ge(t, m.in.Real(new(big.Rat))), fl, m.in.Neg(m.in.ToInt(m.in.Neg(t))))
			return tr // out-of-range float->int is implementation-defined; ranges are asserted by users of this value
		}
		m.unsupported("convert %s to %s", from, to)
	}
	if isFloat(to) {
		t := x.(*Term)
		if _, ok := intInfoOf(from); ok {
			return m.in.ToReal(t)
		}
		if isFloat(from) {
			if t.IsConst() {
				if b, ok := under(to).(*types.Basic); ok && b.Kind() == types.Float32 {
					f, _ := t.rv.Float32()
					return m.in.Real(new(big.Rat).SetFloat64(float64(f)))
				}
			}
			return t
		}
	}
	if isString(to) {
		switch v := x.(type) {
		case *Term:
			if isString(from) {
				return v
			}
			if _, ok := intInfoOf(from); ok { // string(rune)
				return m.in.StrFromCode(v)
			}
		case *BytesVal:
			return m.bytesToStr(v)
		case *SliceVal:
			return m.bytesToStr(m.toBytes(v))
		}
	}
	if isByteSlice(to) {
		switch v := x.(type) {
		case *Term:
			if v.IsConst() {
				return &BytesVal{segs: litSegs(v.sv)}
			}
			return &BytesVal{segs: []Seg{{k: SegStr, t: v}}}
		case *BytesVal, *SliceVal:
			return v
		}
	}
	if _, ok := under(to).(*types.Slice); ok {
		return x // named slice conversions
	}
	if _, ok := under(to).(*types.Pointer); ok {
		return x
	}
	if types.Identical(under(from), under(to)) {
		return x
	}
	m.unsupported("convert %s -> %s (%T)", from, to, x)
	return nil
}

func litSegs(s string) []Seg {
	if s == "" {
		return nil
	}
	return []Seg{{k: SegLit, lit: s}}
}

// ---- type assertions

func (m *Machine) typeAssert(fr *Frame, i *ssa.TypeAssert) Value {
	x := m.get(fr, i.X).(*IfaceVal)
	ok := false
	var val Value
	if _, isIface := under(i.AssertedType).(*types.Interface); isIface {
		if x.t != nil {
			ok = m.eng.implements(x.t, under(i.AssertedType).(*types.Interface))
		}
		val = x
		if !ok {
			val = nilIface
		}
	} else {
		ok = x.t != nil && types.Identical(types.Unalias(x.t), types.Unalias(i.AssertedType))
		if ok {
			val = x.v
		} else {
			val = m.zero(i.AssertedType)
		}
	}
	if i.CommaOk {
		return TupleVal{val, m.in.Bool(ok)}
	}
	if !ok {
		m.goPanicf("type-assert", "interface conversion failed: %s", i.AssertedType)
	}
	return val
}

// ---- slices, arrays, strings

func (m *Machine) sliceOf(v Value) *SliceVal {
	v = m.force(v)
	switch s := v.(type) {
	case *SliceVal:
		return s
	case *BytesVal:
		return m.bytesToCells(s)
	}
	m.unsupported("expected slice, got %T", v)
	return nil
}

func (m *Machine) idxCheck(idx *Term, n int, what string) int {
	if idx.IsConst() {
		k := idx.iv
		if !k.IsInt64() || k.Int64() < 0 || k.Int64() >= int64(n) {
			m.goPanicf("index-out-of-range", "index out of range [%s] with length %d (%s)", k, n, what)
		}
		return int(k.Int64())
	}
	m.checkPanic(m.in.Or(m.in.Lt(idx, m.in.I64(0)), m.in.Ge(idx, m.in.I64(int64(n)))), "index-out-of-range")
	return m.concretize(idx, 0, n-1, "index")
}

func (m *Machine) indexAddr(fr *Frame, i *ssa.IndexAddr) Value {
	x := m.force(m.get(fr, i.X))
	idx := m.get(fr, i.Index).(*Term)
	switch s := x.(type) {
	case *SliceVal, *BytesVal:
		sl := m.sliceOf(s)
		k := m.idxCheck(idx, sl.len, "slice")
		return Pointer{cell: sl.cell, idx: sl.off + k}
	case Pointer: // pointer to array
		if s.cell == nil {
			m.goPanicf("nil-deref", "nil array pointer")
		}
		if s.arr {
			k := m.idxCheck(idx, len(s.cell.elems), "array")
			return Pointer{cell: s.cell, idx: k}
		}
		arr := m.load(s).(*ArrayVal)
		k := m.idxCheck(idx, len(arr.e), "array")
		return extendPath(s, k)
	}
	m.unsupported("IndexAddr on %T", x)
	return nil
}

func (m *Machine) index(fr *Frame, i *ssa.Index) Value {
	x := m.get(fr, i.X)
	idx := m.get(fr, i.Index).(*Term)
	switch s := x.(type) {
	case *ArrayVal:
		k := m.idxCheck(idx, len(s.e), "array")
		return s.e[k]
	case *Term: // string index -> byte
		ln := m.in.StrLen(s)
		m.checkPanic(m.in.Or(m.in.Lt(idx, m.in.I64(0)), m.in.Ge(idx, ln)), "index-out-of-range")
		if s.IsConst() && idx.IsConst() {
			return m.in.I64(int64(s.sv[idx.iv.Int64()]))
		}
		return m.in.StrToCode(m.in.StrSubstr(s, idx, m.in.I64(1)))
	}
	m.unsupported("Index on %T", x)
	return nil
}

func (m *Machine) sliceOp(fr *Frame, i *ssa.Slice) Value {
	x := m.force(m.get(fr, i.X))
	var lo, hi, mx *Term
	if i.Low != nil {
		lo = m.get(fr, i.Low).(*Term)
	}
	if i.High != nil {
		hi = m.get(fr, i.High).(*Term)
	}
	if i.Max != nil {
		mx = m.get(fr, i.Max).(*Term)
	}
	switch s := x.(type) {
	case *Term: // string
		ln := m.in.StrLen(s)
		if lo == nil {
			lo = m.in.I64(0)
		}
		if hi == nil {
			hi = ln
		}
		bad := m.in.Or(m.in.Lt(lo, m.in.I64(0)), m.in.Lt(hi, lo), m.in.Gt(hi, ln))
		m.checkPanic(bad, "slice-bounds")
		return m.in.StrSubstr(s, lo, m.in.Sub(hi, lo))
	case Pointer: // pointer to array
		if s.cell == nil {
			m.goPanicf("nil-deref", "slice of nil array pointer")
		}
		if !s.arr {
			m.unsupported("slicing an array nested in a struct at %s", m.repoSite())
		}
		n := len(s.cell.elems)
		c := s.cell
		l, h := 0, n
		if lo != nil {
			l = m.boundIdx(lo, 0, n)
		}
		if hi != nil {
			h = m.boundIdx(hi, l, n)
		}
		cp := n - l
		if mx != nil {
			cp = m.boundIdx(mx, h, n) - l
		}
		return &SliceVal{cell: c, off: l, len: h - l, cap: cp}
	case *BytesVal:
		if lo == nil && hi == nil {
			return s
		}
		// fully concrete-shaped byte strings can be sliced
		sl := m.bytesToCells(s)
		return m.sliceSlice(sl, lo, hi, mx)
	case *SliceVal:
		return m.sliceSlice(s, lo, hi, mx)
	}
	m.unsupported("Slice on %T", x)
	return nil
}

func (m *Machine) boundIdx(t *Term, lo, hi int) int {
	if t.IsConst() {
		k := t.iv.Int64()
		if !t.iv.IsInt64() || k < int64(lo) || k > int64(hi) {
			m.goPanicf("slice-bounds", "slice bounds out of range [%s] not in [%d,%d]", t.iv, lo, hi)
		}
		return int(k)
	}
	m.checkPanic(m.in.Or(m.in.Lt(t, m.in.I64(int64(lo))), m.in.Gt(t, m.in.I64(int64(hi)))), "slice-bounds")
	return m.concretize(t, lo, hi, "slice bound")
}

func (m *Machine) sliceSlice(s *SliceVal, lo, hi, mx *Term) Value {
	l, h := 0, s.len
	if lo != nil {
		l = m.boundIdx(lo, 0, s.cap)
	}
	if hi != nil {
		h = m.boundIdx(hi, l, s.cap)
	} else if l > s.len {
		m.goPanicf("slice-bounds", "slice bounds out of range [%d:%d]", l, s.len)
	}
	cp := s.cap - l
	if mx != nil {
		cp = m.boundIdx(mx, h, s.cap) - l
	}
	if s.isNil {
		return &SliceVal{isNil: true}
	}
	return &SliceVal{cell: s.cell, off: s.off + l, len: h - l, cap: cp}
}

// ---- maps

func (m *Machine) mapFind(mo *MapObj, k Value) int {
	for i, e := range mo.entries {
		c := m.equal(e.k, k, mo.kt)
		if m.branch(c) {
			return i
		}
	}
	return -1
}

func (m *Machine) mapUpdate(mo *MapObj, k, v Value) {
	if i := m.mapFind(mo, k); i >= 0 {
		mo.entries[i].v = v
		return
	}
	mo.entries = append(mo.entries, MapEntry{k: k, v: v})
}

func (m *Machine) lookup(fr *Frame, i *ssa.Lookup) Value {
	x := m.get(fr, i.X)
	k := m.get(fr, i.Index)
	if s, ok := x.(*Term); ok { // string[index]
		idx := k.(*Term)
		ln := m.in.StrLen(s)
		m.checkPanic(m.in.Or(m.in.Lt(idx, m.in.I64(0)), m.in.Ge(idx, ln)), "index-out-of-range")
		return m.in.StrToCode(m.in.StrSubstr(s, idx, m.in.I64(1)))
	}
	mv := x.(*MapVal)
	vt := under(i.X.Type()).(*types.Map).Elem()
	var val Value
	found := false
	if mv.m != nil {
		if j := m.mapFind(mv.m, k); j >= 0 {
			val = mv.m.entries[j].v
			found = true
		}
	}
	if !found {
		val = m.zero(vt)
	}
	if i.CommaOk {
		return TupleVal{val, m.in.Bool(found)}
	}
	return val
}

// ---- range / next

type rangeIter struct {
	kind    string // "map" | "string"
	entries []MapEntry
	pos     int
	str     *Term
}

func (m *Machine) rangeOp(fr *Frame, i *ssa.Range) Value {
	x := m.get(fr, i.X)
	switch v := x.(type) {
	case *MapVal:
		it := &rangeIter{kind: "map"}
		if v.m != nil {
			es := append([]MapEntry{}, v.m.entries...)
			// iteration order is an environment choice: fork over all permutations
			if len(es) > 1 {
				if len(es) > m.eng.cfg.MaxMapPerm {
					m.abort("unwind", "map range over %d entries exceeds permutation bound at %s", len(es), m.repoSite())
				}
				perm := m.choosePerm(len(es))
				pe := make([]MapEntry, len(es))
				for a, b := range perm {
					pe[a] = es[b]
				}
				es = pe
				m.w.envLog = append(m.w.envLog, fmt.Sprintf("maporder@%s=%v", m.repoSite(), perm))
			}
			it.entries = es
		}
		return &Handle{kind: "rangeiter", obj: it}
	case *Term:
		if !v.IsConst() {
			m.unsupported("range over symbolic string at %s", m.repoSite())
		}
		return &Handle{kind: "rangeiter", obj: &rangeIter{kind: "string", str: v}}
	}
	m.unsupported("range over %T", x)
	return nil
}

func (m *Machine) choosePerm(n int) []int {
	perms := permutations(n)
	d := m.chooseFree(len(perms))
	return perms[d]
}

func permutations(n int) [][]int {
	if n == 0 {
		return [][]int{{}}
	}
	var out [][]int
	var rec func(cur []int, used []bool)
	rec = func(cur []int, used []bool) {
		if len(cur) == n {
			out = append(out, append([]int{}, cur...))
			return
		}
		for i := 0; i < n; i++ {
			if !used[i] {
				used[i] = true
				rec(append(cur, i), used)
				used[i] = false
			}
		}
	}
	rec(nil, make([]bool, n))
	return out
}

func (m *Machine) nextOp(fr *Frame, i *ssa.Next) Value {
	h := m.get(fr, i.Iter).(*Handle)
	it := h.obj.(*rangeIter)
	tt := i.Type().(*types.Tuple)
	if it.kind == "map" {
		if it.pos >= len(it.entries) {
			return TupleVal{m.in.Bool(false), m.zeroOrNil(tt.At(1).Type()), m.zeroOrNil(tt.At(2).Type())}
		}
		e := it.entries[it.pos]
		it.pos++
		return TupleVal{m.in.Bool(true), e.k, e.v}
	}
	// string: iterate bytes as runes (ASCII only)
	s := it.str.sv
	if it.pos >= len(s) {
		return TupleVal{m.in.Bool(false), m.in.I64(0), m.in.I64(0)}
	}
	p := it.pos
	it.pos++
	return TupleVal{m.in.Bool(true), m.in.I64(int64(p)), m.in.I64(int64(s[p]))}
}

func (m *Machine) zeroOrNil(t types.Type) Value {
	if b, ok := t.(*types.Basic); ok && b.Kind() == types.Invalid {
		return nil
	}
	return m.zero(t)
}

// ---- calls

func (m *Machine) prepareCall(fr *Frame, c *ssa.CallCommon) (Value, []Value) {
	args := make([]Value, 0, len(c.Args)+1)
	if c.IsInvoke() {
		recv := m.get(fr, c.Value)
		args = append(args, recv)
		for _, a := range c.Args {
			args = append(args, m.get(fr, a))
		}
		return nil, args
	}
	fnv := m.get(fr, c.Value)
	for _, a := range c.Args {
		args = append(args, m.get(fr, a))
	}
	return fnv, args
}

func (m *Machine) invoke(c *ssa.CallCommon, fnv Value, args []Value, pos string, deferred bool) Value {
	if c.IsInvoke() {
		recv, ok := args[0].(*IfaceVal)
		if !ok {
			m.unsupported("invoke on %T", args[0])
		}
		if recv.t == nil {
			m.goPanicf("nil-deref", "method %s called on nil interface", c.Method.Name())
		}
		if h, ok := recv.v.(*Handle); ok {
			return m.handleMethod(h, c.Method.Name(), args[1:])
		}
		fn := m.eng.lookupMethod(recv.t, c.Method)
		if fn == nil {
			m.unsupported("no method %s on %s", c.Method.Name(), recv.t)
		}
		nargs := append([]Value{recv.v}, args[1:]...)
		return m.callFunction(fn, nargs, nil, pos)
	}
	fv, ok := fnv.(*FuncVal)
	if !ok {
		m.unsupported("call of %T", fnv)
	}
	if fv.isNil {
		m.goPanicf("nil-deref", "call of nil function")
	}
	if fv.fn == nil {
		return m.builtin(strings.TrimPrefix(fv.intr, "builtin:"), c, args)
	}
	return m.callFunction(fv.fn, args, fv.caps, pos)
}

func (m *Machine) callFunction(fn *ssa.Function, args []Value, caps []Value, pos string) Value {
	name := fn.String()
	if fn.Origin() != nil {
		name = fn.Origin().String()
	}
	if h, ok := intrinsics[name]; ok {
		m.funcs["intrinsic:"+name]++
		return h(m, fn, args)
	}
	if isProtoMarshal(fn) {
		// generated proto Marshal of a request payload: opaque token of the message snapshot
		m.funcs["intrinsic:proto-Marshal"]++
		et := fn.Signature.Recv().Type()
		return TupleVal{m.marshalTok(&IfaceVal{t: et, v: args[0]}), nilIface}
	}
	if fn.Name() == "String" && fn.Signature.Recv() != nil && fn.Signature.Params().Len() == 0 && fn.Pkg != nil {
		// String() of SDK numeric / coin types only feeds logs, events and error texts: opaque,
		// deterministic function of the value (formatting code forks heavily and decides nothing)
		switch fn.Pkg.Pkg.Path() {
		case "github.com/cosmos/cosmos-sdk/types", "cosmossdk.io/math":
			m.funcs["intrinsic:opaque-String:"+name]++
			if exact := m.exactNumString(fn, args[0]); exact != nil {
				return exact
			}
			str := m.opaqueFmt(name, args[0])
			// the rendering of a decimal parses back to the same decimal (Dec.String / NewDecFromStr round trip)
			if isNamed(fn.Signature.Recv().Type(), sdkTypes, "Dec") {
				if sv, ok := args[0].(*StructVal); ok && len(sv.f) == 1 {
					if p, ok := m.peekPtr(sv.f[0]); ok && p.cell != nil {
						if bv, ok := getPath(p.cell.elems[p.idx], p.path).(*BigVal); ok {
							m.addPC(m.in.UF("validdec", SBool, str))
							m.addPC(m.in.Eq(m.in.UF("decof", SInt, str), bv.t))
							m.addPC(m.in.Gt(m.in.StrLen(str), m.in.I64(0)))
						}
					}
				}
			}
			return str
		}
	}
	if fn.Pkg != nil && fn.Name() == "init" && fn.Signature.Recv() == nil && fn.Parent() == nil {
		m.runInit(fn.Pkg) // package initialisers run once, under the engine's init policy
		return nil
	}
	if fn.Synthetic != "" && fn.Blocks == nil {
		m.unsupported("synthetic function without body %s", name)
	}
	if !m.eng.executable(fn) {
		if m.initMode > 0 {
			return m.zeroResults(fn)
		}
		m.unsupported("call crosses the intrinsic boundary: %s (at %s)", name, pos)
	}
	if fn.Blocks == nil {
		if fn.Pkg != nil {
			m.eng.methodMu.Lock()
			fn.Pkg.Build()
			m.eng.methodMu.Unlock()
		}
		if fn.Blocks == nil {
			if m.initMode > 0 {
				return m.zeroResults(fn)
			}
			m.unsupported("external function %s", name)
		}
	}
	return m.callFn(fn, args, caps, pos)
}

// ---- builtins

func (m *Machine) builtin(name string, c *ssa.CallCommon, args []Value) Value {
	switch name {
	case "len":
		switch v := m.force(args[0]).(type) {
		case *Term:
			return m.in.StrLen(v)
		case *SliceVal:
			return m.in.I64(int64(v.len))
		case *BytesVal:
			return m.bytesLen(v)
		case *MapVal:
			if v.m == nil {
				return m.in.I64(0)
			}
			return m.in.I64(int64(len(v.m.entries)))
		case *ArrayVal:
			return m.in.I64(int64(len(v.e)))
		case Pointer:
			if v.arr {
				return m.in.I64(int64(len(v.cell.elems)))
			}
			arr := m.load(v).(*ArrayVal)
			return m.in.I64(int64(len(arr.e)))
		}
	case "cap":
		switch v := m.force(args[0]).(type) {
		case *SliceVal:
			return m.in.I64(int64(v.cap))
		case *BytesVal:
			return m.bytesLen(v)
		}
	case "append":
		return m.appendOp(c, args)
	case "copy":
		dst := m.sliceOf(args[0])
		var src *SliceVal
		if t, ok := args[1].(*Term); ok {
			src = m.bytesToCells(&BytesVal{segs: []Seg{{k: SegStr, t: t}}})
		} else {
			src = m.sliceOf(args[1])
		}
		n := dst.len
		if src.len < n {
			n = src.len
		}
		tmp := make([]Value, n)
		for i := 0; i < n; i++ {
			tmp[i] = src.cell.elems[src.off+i]
		}
		for i := 0; i < n; i++ {
			dst.cell.elems[dst.off+i] = tmp[i]
		}
		return m.in.I64(int64(n))
	case "delete":
		mv := args[0].(*MapVal)
		if mv.m != nil {
			if i := m.mapFind(mv.m, args[1]); i >= 0 {
				mv.m.entries = append(append([]MapEntry{}, mv.m.entries[:i]...), mv.m.entries[i+1:]...)
			}
		}
		return nil
	case "recover":
		// the panicking frame is the caller of the deferred function
		for f := m.frame; f != nil; f = f.caller {
			if f.panicking != nil {
				gp := f.panicking
				f.panicking = nil
				if iv, ok := gp.val.(*IfaceVal); ok {
					return iv
				}
				return &IfaceVal{t: types.Typ[types.String], v: gp.val}
			}
		}
		return nilIface
	case "print", "println":
		return nil
	case "min", "max":
		a, b := args[0].(*Term), args[1].(*Term)
		if name == "min" {
			return m.in.Ite(m.in.Le(a, b), a, b)
		}
		return m.in.Ite(m.in.Ge(a, b), a, b)
	case "ssa:wrapnilchk":
		p := m.force(args[0])
		if isNilValue(p) {
			m.goPanicf("nil-deref", "nil receiver")
		}
		return p
	}
	m.unsupported("builtin %s on %T", name, args[0])
	return nil
}

func (m *Machine) appendOp(c *ssa.CallCommon, args []Value) Value {
	a0, a1 := m.force(args[0]), m.force(args[1])
	st := c.Args[0].Type()
	if isByteSlice(st) {
		// symbolic byte-string concatenation
		var b0, b1 *BytesVal
		b0 = m.toBytes(a0)
		if t, ok := a1.(*Term); ok { // append([]byte, string...)
			if t.IsConst() {
				b1 = &BytesVal{segs: litSegs(t.sv)}
			} else {
				b1 = &BytesVal{segs: []Seg{{k: SegStr, t: t}}}
			}
		} else {
			b1 = m.toBytes(a1)
		}
		if len(b1.segs) == 0 {
			if b0.isNil {
				return &BytesVal{isNil: true}
			}
			return b0
		}
		return &BytesVal{segs: normSegs(append(append([]Seg{}, b0.segs...), b1.segs...))}
	}
	s0 := m.sliceOf(a0)
	s1 := m.sliceOf(a1)
	if s1.len == 0 {
		return s0
	}
	n := s0.len + s1.len
	et := under(st).(*types.Slice).Elem()
	if !s0.isNil && n <= s0.cap {
		for i := 0; i < s1.len; i++ {
			s0.cell.elems[s0.off+s0.len+i] = s1.cell.elems[s1.off+i]
		}
		return &SliceVal{cell: s0.cell, off: s0.off, len: n, cap: s0.cap}
	}
	ncap := n
	if s0.cap*2 > ncap {
		ncap = s0.cap * 2
	}
	nc := m.newCell(et, ncap, "append")
	for i := 0; i < s0.len; i++ {
		nc.elems[i] = s0.cell.elems[s0.off+i]
	}
	for i := 0; i < s1.len; i++ {
		nc.elems[s0.len+i] = s1.cell.elems[s1.off+i]
	}
	for i := n; i < ncap; i++ {
		nc.elems[i] = m.zero(et)
	}
	return &SliceVal{cell: nc, len: n, cap: ncap}
}

var traceFn = os.Getenv("GOSYM_BLOCKS")

func debugf(format string, a ...interface{}) {
	if os.Getenv("GOSYM_DEBUG") != "" {
		fmt.Fprintf(os.Stderr, format+"\n", a...)
	}
}

// exactNumString renders concrete sdk.Int / sdk.Dec values exactly (parameters round-trip through strings).
func (m *Machine) exactNumString(fn *ssa.Function, recv Value) *Term {
	rt := fn.Signature.Recv().Type()
	sv, ok := recv.(*StructVal)
	if !ok || len(sv.f) != 1 {
		return nil
	}
	p, ok := m.peekPtr(sv.f[0])
	if !ok || p.cell == nil {
		return nil
	}
	bv, ok := getPath(p.cell.elems[p.idx], p.path).(*BigVal)
	if !ok || !bv.t.IsConst() {
		return nil
	}
	if isNamed(rt, sdkTypes, "Dec") {
		return m.in.Str(decString(bv.t.iv))
	}
	if isNamed(rt, "cosmossdk.io/math", "Int") {
		return m.in.Str(bv.t.iv.String())
	}
	return nil
}
