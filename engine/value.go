package main

import (
	"fmt"
	"go/types"
	"strings"

	"golang.org/x/tools/go/ssa"
)

// Value is one of: *Term (bool/int/float/string scalars), Pointer, *StructVal, *ArrayVal,
// *SliceVal, *BytesVal, *MapVal, *IfaceVal, *FuncVal, TupleVal, *BigVal (only inside cells),
// *Handle (engine objects: stores, iterators), *LazyPtr.
type Value interface{}

type Cell struct {
	id    int
	elems []Value
	typ   types.Type // element type
	tag   string
}

type Pointer struct {
	cell *Cell // nil => nil pointer
	idx  int
	path []int
	arr  bool // points at the whole cell viewed as an array (Alloc of an array type)
}

type StructVal struct {
	f []Value
}

type ArrayVal struct {
	e []Value
}

type Lazy struct {
	name     string
	elem     types.Type
	resolved *SliceVal
	bound    int
	owner    *Machine
}

type SliceVal struct {
	cell     *Cell
	off      int
	len, cap int
	isNil    bool
	lazy     *Lazy
}

// LazyPtr is a pointer field of a materialised object whose nil-ness has not been decided yet.
type LazyPtr struct {
	name     string
	elem     types.Type
	resolved *Pointer
}

type SegKind uint8

const (
	SegLit  SegKind = iota // literal bytes
	SegStr                 // bytes of a String term (symbolic length)
	SegBE64                // 8 bytes big-endian of an Int term (uint64)
	SegByte                // one byte, Int term 0..255
	SegTok                 // opaque token (marshal result / initial store value); never compared bytewise
	SegAddr                // decoded bech32 address of a String term
	SegUF                  // uninterpreted byte string: String term standing for bytes
)

type Seg struct {
	k   SegKind
	lit string
	t   *Term
	tok *Token
}

type BytesVal struct {
	segs  []Seg
	isNil bool
}

type Token struct {
	kind  string // "marshal", "init"
	typ   types.Type
	val   Value // deep snapshot (marshal)
	entry *InitEntry
	id    int
}

type MapEntry struct {
	k, v Value
}
type MapObj struct {
	id      int
	entries []MapEntry
	kt, vt  types.Type
}
type MapVal struct {
	m *MapObj // nil => nil map
}

type IfaceVal struct {
	t types.Type // nil => nil interface
	v Value
}

type FuncVal struct {
	fn    *ssa.Function
	caps  []Value
	intr  string // builtin/intrinsic name when fn == nil
	recv  Value  // bound method receiver (MakeClosure of bound$ wrappers is handled by ssa itself)
	isNil bool
}

type TupleVal []Value

type BigVal struct {
	t *Term // Int
}

type Handle struct {
	kind string
	name string
	obj  interface{}
}

func (p Pointer) IsNil() bool { return p.cell == nil }

var nilIface = &IfaceVal{}

// ---- type helpers

func under(t types.Type) types.Type { return t.Underlying() }

func isNamed(t types.Type, pkg, name string) bool {
	t = types.Unalias(t)
	n, ok := t.(*types.Named)
	if !ok {
		return false
	}
	o := n.Obj()
	return o.Name() == name && o.Pkg() != nil && o.Pkg().Path() == pkg
}

func typeString(t types.Type) string {
	return types.TypeString(t, nil)
}

func isByteSlice(t types.Type) bool {
	s, ok := under(t).(*types.Slice)
	if !ok {
		return false
	}
	b, ok := under(s.Elem()).(*types.Basic)
	return ok && (b.Kind() == types.Uint8)
}

type intInfo struct {
	bits   int
	signed bool
}

func intInfoOf(t types.Type) (intInfo, bool) {
	b, ok := under(t).(*types.Basic)
	if !ok {
		return intInfo{}, false
	}
	switch b.Kind() {
	case types.Int, types.Int64, types.UntypedInt, types.UntypedRune:
		return intInfo{64, true}, true
	case types.Int32:
		return intInfo{32, true}, true
	case types.Int16:
		return intInfo{16, true}, true
	case types.Int8:
		return intInfo{8, true}, true
	case types.Uint, types.Uint64, types.Uintptr:
		return intInfo{64, false}, true
	case types.Uint32:
		return intInfo{32, false}, true
	case types.Uint16:
		return intInfo{16, false}, true
	case types.Uint8:
		return intInfo{8, false}, true
	}
	return intInfo{}, false
}

func isFloat(t types.Type) bool {
	b, ok := under(t).(*types.Basic)
	return ok && (b.Kind() == types.Float32 || b.Kind() == types.Float64 || b.Kind() == types.UntypedFloat)
}
func isString(t types.Type) bool {
	b, ok := under(t).(*types.Basic)
	return ok && (b.Kind() == types.String || b.Kind() == types.UntypedString)
}
func isBool(t types.Type) bool {
	b, ok := under(t).(*types.Basic)
	return ok && (b.Kind() == types.Bool || b.Kind() == types.UntypedBool)
}

func describe(v Value) string {
	switch x := v.(type) {
	case nil:
		return "<nil>"
	case *Term:
		return "term:" + x.op
	case Pointer:
		if x.cell == nil {
			return "nilptr"
		}
		return fmt.Sprintf("ptr(c%d[%d]%v)", x.cell.id, x.idx, x.path)
	case *StructVal:
		parts := make([]string, len(x.f))
		for i, f := range x.f {
			parts[i] = describe(f)
		}
		return "struct{" + strings.Join(parts, ",") + "}"
	case *SliceVal:
		return fmt.Sprintf("slice(len=%d)", x.len)
	case *BytesVal:
		return "bytes"
	case *IfaceVal:
		if x.t == nil {
			return "nil-iface"
		}
		return "iface(" + typeString(x.t) + ")"
	}
	return fmt.Sprintf("%T", v)
}
