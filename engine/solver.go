package main

// Persistent SMT solver processes (cvc5 --incremental primary, z3-new -in secondary).
// Every query is (push 1)(assert ...)(check-sat)[(get-value ...)](pop 1); shared sub-terms
// are sent once as level-0 define-funs.

import (
	"bufio"
	"fmt"
	"io"
	"os"
	"os/exec"
	"strings"
	"sync/atomic"
	"time"
)

type Result int

const (
	Unsat Result = iota
	Sat
	Unknown
)

func (r Result) String() string { return [...]string{"unsat", "sat", "unknown"}[r] }

type SolverStats struct {
	Queries, SatN, UnsatN, UnknownN int64
	Nanos                           int64
}

var gStats = map[string]*SolverStats{"cvc5": {}, "z3": {}, "z3old": {}}

type Proc struct {
	kind    string
	cmd     *exec.Cmd
	in      io.WriteCloser
	out     *bufio.Reader
	defined map[int]bool
	decl    map[string]bool
	dead    bool
	log     io.Writer
	tlimit  int
	stack   []int // ids of pc terms currently asserted, one push level each
}

func startProc(kind string, tlimitMs int) (*Proc, error) {
	var cmd *exec.Cmd
	switch kind {
	case "cvc5":
		// cvc5 answers the easy queries in milliseconds and rarely recovers on the hard nonlinear ones,
		// which z3 4.8.12 then decides quickly (measured): cap cvc5 at 4 s per query
		cl := tlimitMs
		if cl > 4000 {
			cl = 4000
		}
		cmd = exec.Command("cvc5", "--incremental", "--strings-exp", "--produce-models", "--lang=smt2", fmt.Sprintf("--tlimit-per=%d", cl))
	case "z3":
		cmd = exec.Command("z3-new", "-in", fmt.Sprintf("-t:%d", tlimitMs))
	case "z3old":
		cmd = exec.Command("z3", "-in", fmt.Sprintf("-t:%d", tlimitMs))
	default:
		return nil, fmt.Errorf("unknown solver %s", kind)
	}
	in, err := cmd.StdinPipe()
	if err != nil {
		return nil, err
	}
	out, err := cmd.StdoutPipe()
	if err != nil {
		return nil, err
	}
	cmd.Stderr = cmd.Stdout
	if err := cmd.Start(); err != nil {
		return nil, err
	}
	p := &Proc{kind: kind, cmd: cmd, in: in, out: bufio.NewReaderSize(out, 1<<16), defined: map[int]bool{}, decl: map[string]bool{}, tlimit: tlimitMs}
	if os.Getenv("GOSYM_SMTLOG") != "" {
		f, _ := os.Create(fmt.Sprintf("%s.%s.%d.smt2", os.Getenv("GOSYM_SMTLOG"), kind, cmd.Process.Pid))
		p.log = f
	}
	if kind == "cvc5" {
		p.send("(set-logic ALL)\n")
	}
	p.send("(set-option :print-success false)\n")
	return p, nil
}

func (p *Proc) send(s string) {
	if p.log != nil {
		io.WriteString(p.log, s)
	}
	if _, err := io.WriteString(p.in, s); err != nil {
		p.dead = true
	}
}

func (p *Proc) close() {
	if p == nil || p.cmd == nil {
		return
	}
	p.in.Close()
	p.cmd.Process.Kill()
	p.cmd.Wait()
}

// readSexp reads one line or a balanced s-expression.
func (p *Proc) readReply() (string, error) {
	var sb strings.Builder
	depth := 0
	inStr := false
	started := false
	for {
		c, err := p.out.ReadByte()
		if err != nil {
			p.dead = true
			return sb.String(), err
		}
		if !started {
			if c == ' ' || c == '\n' || c == '\r' || c == '\t' {
				continue
			}
			started = true
		}
		sb.WriteByte(c)
		if inStr {
			if c == '"' {
				inStr = false
			}
			continue
		}
		switch c {
		case '"':
			inStr = true
		case '(':
			depth++
		case ')':
			depth--
			if depth == 0 {
				return sb.String(), nil
			}
		case '\n':
			if depth == 0 {
				return strings.TrimSpace(sb.String()), nil
			}
		}
	}
}

type Solver struct {
	in      *Interner
	procs   []*Proc
	tlimit  int
	diff    bool
	nUnk      int
	cvcGaveUp int
	lastErr   string
}

func NewSolver(in *Interner, tlimitMs int) *Solver {
	s := &Solver{in: in, tlimit: tlimitMs, diff: os.Getenv("GOSYM_DIFF") != ""}
	return s
}

func (s *Solver) proc(kind string) *Proc {
	for _, p := range s.procs {
		if p.kind == kind && !p.dead {
			return p
		}
	}
	p, err := startProc(kind, s.tlimit)
	if err != nil {
		panic(err)
	}
	// drop dead ones of that kind
	var keep []*Proc
	for _, q := range s.procs {
		if !(q.kind == kind && q.dead) {
			keep = append(keep, q)
		} else {
			q.close()
		}
	}
	s.procs = append(keep, p)
	return p
}

func (s *Solver) Close() {
	for _, p := range s.procs {
		p.close()
	}
	s.procs = nil
}

// define emits declarations and definitions needed by t on proc p, returns the reference text.
func (s *Solver) define(p *Proc, t *Term, sb *strings.Builder) string {
	switch t.op {
	case "const":
		return s.in.render(t, nil)
	case "var":
		if !p.decl[t.name] {
			p.decl[t.name] = true
			fmt.Fprintf(sb, "(declare-const %s %s)\n", t.name, t.sort)
		}
		return t.name
	case "uf0":
		if !p.decl[t.name] {
			p.decl[t.name] = true
			sb.WriteString(s.in.ufs[t.name] + "\n")
		}
		return t.name
	}
	if p.defined[t.id] {
		return fmt.Sprintf("t!%d", t.id)
	}
	if t.op == "uf" && !p.decl[t.name] {
		p.decl[t.name] = true
		sb.WriteString(s.in.ufs[t.name] + "\n")
	}
	refs := make(map[*Term]string, len(t.args))
	for _, a := range t.args {
		refs[a] = s.define(p, a, sb)
	}
	body := s.in.render(t, func(x *Term) string { return refs[x] })
	p.defined[t.id] = true
	fmt.Fprintf(sb, "(define-fun t!%d () %s %s)\n", t.id, t.sort, body)
	if t.op == "uf" && t.name == "nlmul" {
		// facts true of every integer product (the abstraction over-approximates multiplication)
		pr, a, b := fmt.Sprintf("t!%d", t.id), refs[t.args[0]], refs[t.args[1]]
		fmt.Fprintf(sb, "(assert (= (= %s 0) (or (= %s 0) (= %s 0))))\n", pr, a, b)
		fmt.Fprintf(sb, "(assert (=> (and (> %s 0) (> %s 0)) (and (>= %s %s) (>= %s %s))))\n", a, b, pr, a, pr, b)
		fmt.Fprintf(sb, "(assert (=> (and (< %s 0) (< %s 0)) (and (>= %s (- %s)) (>= %s (- %s)))))\n", a, b, pr, a, pr, b)
		fmt.Fprintf(sb, "(assert (=> (and (> %s 0) (< %s 0)) (and (<= %s (- %s)) (<= %s %s))))\n", a, b, pr, a, pr, b)
		fmt.Fprintf(sb, "(assert (=> (and (< %s 0) (> %s 0)) (and (<= %s %s) (<= %s (- %s)))))\n", a, b, pr, a, pr, b)
		fmt.Fprintf(sb, "(assert (=> (= %s 1) (= %s %s)))\n(assert (=> (= %s 1) (= %s %s)))\n", a, pr, b, b, pr, a)
	}
	if t.op == "uf" && (t.name == "nldiv" || t.name == "nlmod") {
		// Euclidean division by a symbolic divisor, abstracted: range and ordering facts only
		x, a, b := fmt.Sprintf("t!%d", t.id), refs[t.args[0]], refs[t.args[1]]
		if t.name == "nldiv" {
			fmt.Fprintf(sb, "(assert (=> (and (>= %s 0) (> %s 0)) (and (>= %s 0) (<= %s %s))))\n", a, b, x, x, a)
			fmt.Fprintf(sb, "(assert (=> (and (>= %s 0) (> %s %s)) (= %s 0)))\n", a, b, a, x)
			fmt.Fprintf(sb, "(assert (=> (and (= %s %s) (not (= %s 0))) (= %s 1)))\n", a, b, b, x)
			fmt.Fprintf(sb, "(assert (=> (and (>= %s %s) (> %s 0)) (>= %s 1)))\n", a, b, b, x)
			fmt.Fprintf(sb, "(assert (=> (= %s 1) (= %s %s)))\n", b, x, a)
		} else {
			fmt.Fprintf(sb, "(assert (=> (> %s 0) (and (>= %s 0) (< %s %s))))\n", b, x, x, b)
			fmt.Fprintf(sb, "(assert (=> (< %s 0) (and (>= %s 0) (< %s (- %s)))))\n", b, x, x, b)
			fmt.Fprintf(sb, "(assert (=> (and (>= %s 0) (> %s %s)) (= %s %s)))\n", a, b, a, x, a)
		}
	}
	return fmt.Sprintf("t!%d", t.id)
}

func hasStrOps(ts []*Term, seen map[int]bool) bool {
	for _, t := range ts {
		if seen[t.id] {
			continue
		}
		seen[t.id] = true
		if strings.HasPrefix(t.op, "str.") {
			return true
		}
		if hasStrOps(t.args, seen) {
			return true
		}
	}
	return false
}

func (s *Solver) checkOn(kind string, assertions []*Term, wantModel []*Term) (Result, map[string]string) {
	p := s.proc(kind)
	var sb strings.Builder
	refs := make([]string, len(assertions))
	for i, a := range assertions {
		refs[i] = s.define(p, a, &sb)
	}
	mrefs := make([]string, len(wantModel))
	for i, a := range wantModel {
		mrefs[i] = s.define(p, a, &sb)
	}
	sb.WriteString("(push 1)\n")
	for _, r := range refs {
		sb.WriteString("(assert " + r + ")\n")
	}
	sb.WriteString("(check-sat)\n")
	t0 := time.Now()
	p.send(sb.String())
	rep, err := p.readReply()
	st := gStats[kind]
	atomic.AddInt64(&st.Queries, 1)
	atomic.AddInt64(&st.Nanos, int64(time.Since(t0)))
	res := Unknown
	if err == nil {
		switch {
		case rep == "sat":
			res = Sat
		case rep == "unsat":
			res = Unsat
		case strings.Contains(rep, "error"):
			s.lastErr = rep
			if os.Getenv("GOSYM_DEBUG") != "" {
				fmt.Fprintln(os.Stderr, "SOLVER ERROR", kind, rep)
			}
			// solver state is unreliable after an error: restart
			p.dead = true
			p.close()
			atomic.AddInt64(&st.UnknownN, 1)
			return Unknown, nil
		}
	} else {
		p.close()
		atomic.AddInt64(&st.UnknownN, 1)
		return Unknown, nil
	}
	var model map[string]string
	if res == Sat && len(wantModel) > 0 {
		model = map[string]string{}
		// ask in chunks to keep replies parseable
		for i := 0; i < len(mrefs); i += 50 {
			j := i + 50
			if j > len(mrefs) {
				j = len(mrefs)
			}
			p.send("(get-value (" + strings.Join(mrefs[i:j], " ") + "))\n")
			r, err := p.readReply()
			if err != nil {
				break
			}
			parseGetValue(r, model)
		}
	}
	p.send("(pop 1)\n")
	switch res {
	case Sat:
		atomic.AddInt64(&st.SatN, 1)
	case Unsat:
		atomic.AddInt64(&st.UnsatN, 1)
	default:
		atomic.AddInt64(&st.UnknownN, 1)
	}
	return res, model
}

// syncStack makes the solver's assertion stack equal to pc (one push level per conjunct), reusing
// the common prefix with what is already asserted.
func (s *Solver) syncStack(p *Proc, pc []*Term, sb *strings.Builder) {
	k := 0
	for k < len(p.stack) && k < len(pc) && p.stack[k] == pc[k].id {
		k++
	}
	if n := len(p.stack) - k; n > 0 {
		fmt.Fprintf(sb, "(pop %d)\n", n)
		p.stack = p.stack[:k]
	}
	for _, c := range pc[k:] {
		ref := s.define(p, c, sb)
		sb.WriteString("(push 1)\n(assert " + ref + ")\n")
		p.stack = append(p.stack, c.id)
	}
}

// CheckInc decides pc ∧ extra with the pc kept on the solver's incremental stack.
func (s *Solver) CheckInc(pc []*Term, extra []*Term, wantModel []*Term) (Result, map[string]string) {
	for _, a := range extra {
		if a.IsConst() && !a.bv {
			return Unsat, nil
		}
	}
	all := append(append([]*Term{}, pc...), extra...)
	strs := hasStrOps(all, map[int]bool{})
	var r Result
	var m map[string]string
	if s.cvcGaveUp >= 5 && !strs {
		// this obligation's queries are of the kind cvc5 gives up on: ask z3 4.8.12 first
		r, m = s.checkOn("z3old", all, wantModel)
		if r != Unknown {
			return r, m
		}
	}
	r, m = s.checkIncOn("cvc5", pc, extra, wantModel)
	if r == Unknown {
		s.cvcGaveUp++
		// z3 4.8.12 decides most of the nonlinear queries cvc5 gives up on (measured); also try z3 5.x
		r, m = s.checkOn("z3old", all, wantModel)
		if r == Unknown && !strs {
			r, m = s.checkOn("z3", all, wantModel)
		}
	}
	if s.diff && !strs && r != Unknown {
		r2, _ := s.checkOn("z3", all, nil)
		if r2 != Unknown && r2 != r {
			fmt.Fprintf(os.Stderr, "SOLVER-DISAGREEMENT cvc5=%s z3=%s\n", r, r2)
			os.Exit(3)
		}
	}
	if r == Unknown {
		s.nUnk++
	}
	return r, m
}

func (s *Solver) checkIncOn(kind string, pc []*Term, extra []*Term, wantModel []*Term) (Result, map[string]string) {
	p := s.proc(kind)
	var sb strings.Builder
	// definitions must be emitted at level 0: define everything first, then sync the stack
	// (define-funs issued inside a push level would be lost on pop)
	pre := len(p.stack)
	k := 0
	for k < pre && k < len(pc) && p.stack[k] == pc[k].id {
		k++
	}
	needDefs := false
	probe := &strings.Builder{}
	for _, c := range pc[k:] {
		s.defineProbe(p, c, &needDefs)
	}
	for _, c := range extra {
		s.defineProbe(p, c, &needDefs)
	}
	for _, c := range wantModel {
		s.defineProbe(p, c, &needDefs)
	}
	_ = probe
	if needDefs && len(p.stack) > 0 {
		fmt.Fprintf(&sb, "(pop %d)\n", len(p.stack))
		p.stack = p.stack[:0]
	}
	if needDefs {
		for _, c := range pc {
			s.define(p, c, &sb)
		}
		for _, c := range extra {
			s.define(p, c, &sb)
		}
		for _, c := range wantModel {
			s.define(p, c, &sb)
		}
	}
	s.syncStack(p, pc, &sb)
	refs := make([]string, len(extra))
	for i, a := range extra {
		refs[i] = s.define(p, a, &sb)
	}
	mrefs := make([]string, len(wantModel))
	for i, a := range wantModel {
		mrefs[i] = s.define(p, a, &sb)
	}
	sb.WriteString("(push 1)\n")
	for _, r := range refs {
		sb.WriteString("(assert " + r + ")\n")
	}
	sb.WriteString("(check-sat)\n")
	t0 := time.Now()
	p.send(sb.String())
	rep, err := p.readReply()
	st := gStats[kind]
	atomic.AddInt64(&st.Queries, 1)
	atomic.AddInt64(&st.Nanos, int64(time.Since(t0)))
	if d := time.Since(t0); d > 3*time.Second && os.Getenv("GOSYM_SLOW") != "" {
		var xs []string
		for _, e := range extra {
			xs = append(xs, s.in.Show(e))
		}
		fmt.Fprintf(os.Stderr, "SLOW %.1fs %s reply=%s pc=%d extra=%v\n", d.Seconds(), kind, rep, len(pc), xs)
		if f, ferr := os.CreateTemp("", "slowq*.smt2"); ferr == nil {
			s.dumpQuery(f, pc, extra)
			f.Close()
			fmt.Fprintf(os.Stderr, "   dumped %s\n", f.Name())
		}
	}
	res := Unknown
	if err == nil {
		switch {
		case rep == "sat":
			res = Sat
		case rep == "unsat":
			res = Unsat
		case strings.Contains(rep, "error"):
			s.lastErr = rep
			if os.Getenv("GOSYM_DEBUG") != "" {
				fmt.Fprintln(os.Stderr, "SOLVER ERROR", kind, rep)
			}
			p.dead = true
			p.close()
			atomic.AddInt64(&st.UnknownN, 1)
			return Unknown, nil
		}
	} else {
		p.close()
		atomic.AddInt64(&st.UnknownN, 1)
		return Unknown, nil
	}
	var model map[string]string
	if res == Sat && len(wantModel) > 0 {
		model = map[string]string{}
		for i := 0; i < len(mrefs); i += 50 {
			j := i + 50
			if j > len(mrefs) {
				j = len(mrefs)
			}
			p.send("(get-value (" + strings.Join(mrefs[i:j], " ") + "))\n")
			r, err := p.readReply()
			if err != nil {
				break
			}
			parseGetValue(r, model)
		}
	}
	p.send("(pop 1)\n")
	switch res {
	case Sat:
		atomic.AddInt64(&st.SatN, 1)
	case Unsat:
		atomic.AddInt64(&st.UnsatN, 1)
	default:
		atomic.AddInt64(&st.UnknownN, 1)
	}
	return res, model
}

// defineProbe reports whether t needs new declarations/definitions on p.
func (s *Solver) defineProbe(p *Proc, t *Term, need *bool) {
	if *need {
		return
	}
	switch t.op {
	case "const":
		return
	case "var", "uf0":
		if !p.decl[t.name] {
			*need = true
		}
		return
	}
	if !p.defined[t.id] {
		*need = true
	}
}

// Check decides satisfiability of the conjunction. wantModel: terms whose values are wanted on sat.
func (s *Solver) Check(assertions []*Term, wantModel []*Term) (Result, map[string]string) {
	for _, a := range assertions {
		if a.IsConst() && !a.bv {
			return Unsat, nil
		}
	}
	strs := hasStrOps(assertions, map[int]bool{})
	r, m := s.checkOn("cvc5", assertions, wantModel)
	if r == Unknown && !strs {
		r, m = s.checkOn("z3", assertions, wantModel)
	}
	if s.diff && !strs && r != Unknown {
		r2, _ := s.checkOn("z3", assertions, nil)
		if r2 != Unknown && r2 != r {
			fmt.Fprintf(os.Stderr, "SOLVER-DISAGREEMENT cvc5=%s z3=%s\n", r, r2)
			os.Exit(3)
		}
	}
	if r == Unknown {
		s.nUnk++
	}
	return r, m
}

// ---- get-value parsing

type sx struct {
	atom string
	list []*sx
	isL  bool
}

func parseSx(s string, i *int) *sx {
	for *i < len(s) && (s[*i] == ' ' || s[*i] == '\n' || s[*i] == '\t' || s[*i] == '\r') {
		*i++
	}
	if *i >= len(s) {
		return nil
	}
	if s[*i] == '(' {
		*i++
		n := &sx{isL: true}
		for {
			for *i < len(s) && (s[*i] == ' ' || s[*i] == '\n' || s[*i] == '\t' || s[*i] == '\r') {
				*i++
			}
			if *i >= len(s) {
				return n
			}
			if s[*i] == ')' {
				*i++
				return n
			}
			c := parseSx(s, i)
			if c == nil {
				return n
			}
			n.list = append(n.list, c)
		}
	}
	if s[*i] == '"' {
		j := *i + 1
		var sb strings.Builder
		sb.WriteByte('"')
		for j < len(s) {
			if s[j] == '"' {
				if j+1 < len(s) && s[j+1] == '"' {
					sb.WriteString("\"\"")
					j += 2
					continue
				}
				break
			}
			sb.WriteByte(s[j])
			j++
		}
		sb.WriteByte('"')
		*i = j + 1
		return &sx{atom: sb.String()}
	}
	j := *i
	for j < len(s) && !strings.ContainsRune(" \n\t\r()", rune(s[j])) {
		j++
	}
	a := s[*i:j]
	*i = j
	return &sx{atom: a}
}

func (n *sx) text() string {
	if !n.isL {
		return n.atom
	}
	parts := make([]string, len(n.list))
	for i, c := range n.list {
		parts[i] = c.text()
	}
	return "(" + strings.Join(parts, " ") + ")"
}

func parseGetValue(r string, out map[string]string) {
	i := 0
	n := parseSx(r, &i)
	if n == nil || !n.isL {
		return
	}
	for _, pair := range n.list {
		if pair.isL && len(pair.list) == 2 {
			out[pair.list[0].text()] = pair.list[1].text()
		}
	}
}

// dumpQuery writes a self-contained SMT-LIB2 file for pc ∧ extra.
func (s *Solver) dumpQuery(w io.Writer, pc, extra []*Term) {
	p := &Proc{defined: map[int]bool{}, decl: map[string]bool{}}
	var sb strings.Builder
	sb.WriteString("(set-logic ALL)\n")
	for _, c := range append(append([]*Term{}, pc...), extra...) {
		r := s.define(p, c, &sb)
		sb.WriteString("(assert " + r + ")\n")
	}
	sb.WriteString("(check-sat)\n")
	io.WriteString(w, sb.String())
}
