package main

// Counterexample extraction: a solver model is turned into a replayable case file
// (nondet values by name, materialised initial store entries, params, environment).

import (
	"os"
	"encoding/base64"
	"encoding/hex"
	"fmt"
	"go/types"
	"math/big"
	"reflect"
	"strconv"
	"strings"
)

type StoreCase struct {
	Store   string      `json:"store"`
	KeyHex  string      `json:"key_hex"`
	KeyText string      `json:"key_text"`
	Present bool        `json:"present"`
	Type    string      `json:"type,omitempty"`
	JSON    interface{} `json:"json,omitempty"`
	RawHex  string      `json:"raw_hex,omitempty"`
	IsRaw   bool        `json:"is_raw,omitempty"`
}

type BankCase struct {
	Addr   string `json:"addr"`
	Denom  string `json:"denom"`
	Amount string `json:"amount"`
}

type NondetItem struct {
	Name string      `json:"name"`
	JSON interface{} `json:"json"`
}

type CaseFile struct {
	Obligation string                 `json:"obligation"`
	Label      string                 `json:"label"`
	Kind       string                 `json:"kind"`
	Site       string                 `json:"site,omitempty"`
	Detail     string                 `json:"detail,omitempty"`
	Nondet     map[string]interface{} `json:"nondet"`
	NondetSeq  []NondetItem           `json:"nondet_seq"`
	EnvInts    []string               `json:"env_ints,omitempty"`
	AddrMap    map[string]string      `json:"address_map,omitempty"`
	SigResults []bool                 `json:"sig_results,omitempty"`
	Stores     []StoreCase            `json:"stores"`
	Params     map[string]interface{} `json:"params,omitempty"`
	Bank       []BankCase             `json:"bank,omitempty"`
	Env        []string               `json:"env,omitempty"`
	Trace      []int                  `json:"trace"`
	Model      map[string]string      `json:"model,omitempty"`
}

func termKey(t *Term) string {
	switch t.op {
	case "var", "uf0":
		return t.name
	case "const":
		return ""
	}
	return fmt.Sprintf("t!%d", t.id)
}

// caseTerms collects every leaf term whose value the case file needs.
func (m *Machine) caseTerms() []*Term {
	seen := map[int]bool{}
	var out []*Term
	add := func(t *Term) {
		if t == nil || t.IsConst() || seen[t.id] {
			return
		}
		seen[t.id] = true
		out = append(out, t)
	}
	var walk func(v Value, depth int)
	walk = func(v Value, depth int) {
		if depth > 12 {
			return
		}
		switch x := v.(type) {
		case *Term:
			add(x)
		case *StructVal:
			for _, f := range x.f {
				walk(f, depth+1)
			}
		case *ArrayVal:
			for _, f := range x.e {
				walk(f, depth+1)
			}
		case *SliceVal:
			s := x
			if s.lazy != nil {
				if s.lazy.resolved == nil {
					return
				}
				s = s.lazy.resolved
			}
			for i := 0; i < s.len; i++ {
				walk(s.cell.elems[s.off+i], depth+1)
			}
		case *LazyPtr:
			if x.resolved != nil {
				walk(*x.resolved, depth+1)
			}
		case Pointer:
			if x.cell != nil {
				walk(getPath(x.cell.elems[x.idx], x.path), depth+1)
			}
		case *BigVal:
			add(x.t)
		case *BytesVal:
			for _, s := range x.segs {
				if s.t != nil {
					add(s.t)
				}
			}
		case *IfaceVal:
			if x.t != nil {
				walk(x.v, depth+1)
			}
		}
	}
	for _, n := range m.nondets {
		walk(n.Val, 0)
	}
	for _, name := range m.w.order {
		for _, e := range m.w.stores[name].init {
			walk(e.key, 0)
			if e.obj != nil {
				walk(e.obj, 0)
			}
			if e.raw != nil {
				walk(e.raw, 0)
			}
		}
	}
	for _, v := range m.paramInit {
		walk(v, 0)
	}
	for _, t := range m.w.envSyms {
		add(t)
	}
	for _, b := range m.w.bankInit {
		add(b.addr)
		add(b.denom)
		add(b.val)
	}
	for name, args := range m.ufArgs {
		for _, t := range args {
			add(t)
			add(m.in.UF(name, SBool, t))
			if name == "validdec" {
				add(m.in.UF("decof", SInt, t))
			}
		}
	}
	return out
}

type modelEval struct {
	m     *Machine
	model map[string]string
	addr  map[string]string // model string -> real bech32 address
}

func (ev *modelEval) raw(t *Term) (string, bool) {
	if t.IsConst() {
		return "", false
	}
	s, ok := ev.model[termKey(t)]
	return s, ok
}

func parseSmtInt(s string) (*big.Int, bool) {
	s = strings.TrimSpace(s)
	neg := false
	if strings.HasPrefix(s, "(-") {
		neg = true
		s = strings.TrimSpace(strings.TrimSuffix(strings.TrimPrefix(s, "(-"), ")"))
	}
	v, ok := new(big.Int).SetString(s, 10)
	if !ok {
		return nil, false
	}
	if neg {
		v.Neg(v)
	}
	return v, true
}

func parseSmtString(s string) string {
	s = strings.TrimSpace(s)
	if len(s) >= 2 && s[0] == '"' && s[len(s)-1] == '"' {
		s = s[1 : len(s)-1]
	}
	s = strings.ReplaceAll(s, "\"\"", "\"")
	// \u{..} escapes
	var sb strings.Builder
	for i := 0; i < len(s); i++ {
		if s[i] == '\\' && i+2 < len(s) && s[i+1] == 'u' && s[i+2] == '{' {
			j := strings.IndexByte(s[i:], '}')
			if j > 0 {
				if n, err := strconv.ParseUint(s[i+3:i+j], 16, 32); err == nil {
					if n < 256 {
						sb.WriteByte(byte(n))
					} else {
						sb.WriteRune(rune(n))
					}
					i += j
					continue
				}
			}
		}
		sb.WriteByte(s[i])
	}
	return sb.String()
}

func parseSmtReal(s string) (*big.Rat, bool) {
	s = strings.TrimSpace(s)
	neg := false
	if strings.HasPrefix(s, "(-") {
		neg = true
		s = strings.TrimSpace(strings.TrimSuffix(strings.TrimPrefix(s, "(-"), ")"))
	}
	var r *big.Rat
	if strings.HasPrefix(s, "(/") {
		parts := strings.Fields(strings.TrimSuffix(strings.TrimPrefix(s, "(/"), ")"))
		if len(parts) != 2 {
			return nil, false
		}
		a, ok1 := new(big.Rat).SetString(parts[0])
		b, ok2 := new(big.Rat).SetString(parts[1])
		if !ok1 || !ok2 || b.Sign() == 0 {
			return nil, false
		}
		r = new(big.Rat).Quo(a, b)
	} else {
		var ok bool
		r, ok = new(big.Rat).SetString(s)
		if !ok {
			return nil, false
		}
	}
	if neg {
		r.Neg(r)
	}
	return r, true
}

func (ev *modelEval) intOf(t *Term) *big.Int {
	if t.IsConst() {
		return t.iv
	}
	if s, ok := ev.raw(t); ok {
		if v, ok := parseSmtInt(s); ok {
			return v
		}
	}
	return big.NewInt(0)
}
func (ev *modelEval) strOf(t *Term) string {
	if t.IsConst() {
		return t.sv
	}
	if s, ok := ev.raw(t); ok {
		v := parseSmtString(s)
		if r, ok := ev.addr[v]; ok {
			return r
		}
		for raw, real := range ev.addr {
			if len(raw) >= 8 && strings.Contains(v, raw) {
				v = strings.ReplaceAll(v, raw, real)
			}
		}
		return v
	}
	return ""
}
func (ev *modelEval) boolOf(t *Term) bool {
	if t.IsConst() {
		return t.bv
	}
	s, _ := ev.raw(t)
	return strings.TrimSpace(s) == "true"
}
func (ev *modelEval) realOf(t *Term) float64 {
	if t.IsConst() {
		f, _ := t.rv.Float64()
		return f
	}
	if s, ok := ev.raw(t); ok {
		if r, ok := parseSmtReal(s); ok {
			f, _ := r.Float64()
			return f
		}
	}
	return 0
}

func protoFieldName(tag string, goName string) string {
	// `protobuf:"bytes,1,opt,name=creator,proto3" json:"creator,omitempty"`
	st := reflect.StructTag(tag)
	if pb := st.Get("protobuf"); pb != "" {
		for _, part := range strings.Split(pb, ",") {
			if strings.HasPrefix(part, "name=") {
				return strings.TrimPrefix(part, "name=")
			}
		}
	}
	if js := st.Get("json"); js != "" {
		return strings.Split(js, ",")[0]
	}
	return goName
}

func decString(v *big.Int) string {
	neg := v.Sign() < 0
	a := new(big.Int).Abs(v)
	s := a.String()
	for len(s) <= 18 {
		s = "0" + s
	}
	r := s[:len(s)-18] + "." + s[len(s)-18:]
	if neg {
		r = "-" + r
	}
	return r
}

func (ev *modelEval) bytesOf(b *BytesVal) []byte {
	var out []byte
	for _, s := range b.segs {
		switch s.k {
		case SegLit:
			out = append(out, s.lit...)
		case SegStr, SegUF:
			out = append(out, ev.strOf(s.t)...)
		case SegByte:
			out = append(out, byte(ev.intOf(s.t).Uint64()))
		case SegBE64:
			v := ev.intOf(s.t).Uint64()
			for i := 7; i >= 0; i-- {
				out = append(out, byte(v>>(8*uint(i))))
			}
		case SegAddr:
			out = append(out, []byte("ADDR("+ev.strOf(s.t)+")")...)
		case SegTok:
			out = append(out, []byte("TOK")...)
		}
	}
	return out
}

// jsonOf renders a symbolic value of Go type t under the model, in proto-JSON shape.
func (ev *modelEval) jsonOf(v Value, t types.Type) interface{} {
	t = types.Unalias(t)
	m := ev.m
	if isNamed(t, "cosmossdk.io/math", "Int") {
		sv := v.(*StructVal)
		p, ok := m.peekPtr(sv.f[0])
		if !ok || p.cell == nil {
			return "0"
		}
		return ev.intOf(p.cell.elems[p.idx].(*BigVal).t).String()
	}
	if isNamed(t, sdkTypes, "Dec") || isNamed(t, "cosmossdk.io/math", "LegacyDec") {
		sv := v.(*StructVal)
		p, ok := m.peekPtr(sv.f[0])
		if !ok || p.cell == nil {
			return "0.000000000000000000"
		}
		return decString(ev.intOf(p.cell.elems[p.idx].(*BigVal).t))
	}
	switch x := v.(type) {
	case *Term:
		switch x.sort {
		case SBool:
			return ev.boolOf(x)
		case SString:
			return ev.strOf(x)
		case SReal:
			return ev.realOf(x)
		case SInt:
			n := ev.intOf(x)
			if info, ok := intInfoOf(t); ok && info.bits == 64 {
				return n.String()
			}
			if n.IsInt64() {
				return n.Int64()
			}
			return n.String()
		}
	case *BigVal:
		return ev.intOf(x.t).String()
	case *StructVal:
		st, ok := under(t).(*types.Struct)
		if !ok {
			return nil
		}
		out := map[string]interface{}{}
		for i := 0; i < st.NumFields(); i++ {
			f := st.Field(i)
			if strings.HasPrefix(f.Name(), "XXX_") || !f.Exported() {
				continue
			}
			out[protoFieldName(st.Tag(i), f.Name())] = ev.jsonOf(x.f[i], f.Type())
		}
		return out
	case *SliceVal:
		s := x
		if s.lazy != nil {
			if s.lazy.resolved == nil {
				return []interface{}{}
			}
			s = s.lazy.resolved
		}
		et := under(t).(*types.Slice).Elem()
		out := make([]interface{}, 0, s.len)
		for i := 0; i < s.len; i++ {
			out = append(out, ev.jsonOf(s.cell.elems[s.off+i], et))
		}
		return out
	case *BytesVal:
		return base64.StdEncoding.EncodeToString(ev.bytesOf(x))
	case *LazyPtr:
		if x.resolved == nil || x.resolved.cell == nil {
			return nil
		}
		return ev.jsonOf(*x.resolved, t)
	case Pointer:
		if x.cell == nil {
			return nil
		}
		pt, ok := under(t).(*types.Pointer)
		if !ok {
			return nil
		}
		return ev.jsonOf(getPath(x.cell.elems[x.idx], x.path), pt.Elem())
	case *ArrayVal:
		et := under(t).(*types.Array).Elem()
		out := make([]interface{}, 0, len(x.e))
		for _, e := range x.e {
			out = append(out, ev.jsonOf(e, et))
		}
		return out
	case *IfaceVal:
		if x.t == nil {
			return nil
		}
		return ev.jsonOf(x.v, x.t)
	}
	return nil
}

func (m *Machine) peekPtr(v Value) (Pointer, bool) {
	switch x := v.(type) {
	case Pointer:
		return x, true
	case *LazyPtr:
		if x.resolved != nil {
			return *x.resolved, true
		}
	}
	return Pointer{}, false
}

func (m *Machine) buildCase(label string, model map[string]string) *CaseFile {
	ev := &modelEval{m: m, model: model, addr: map[string]string{}}
	// strings the path treats as valid bech32 / decimals become real addresses / decimal strings
	n := 0
	for _, kind := range []string{"acc", "val"} {
		for _, t := range m.ufArgs["validbech32_"+kind] {
			app := m.in.UF("validbech32_"+kind, SBool, t)
			if v, ok := model[termKey(app)]; ok && strings.TrimSpace(v) == "true" {
				raw := t.sv
				if !t.IsConst() {
					raw = parseSmtString(model[termKey(t)])
				}
				if _, done := ev.addr[raw]; !done && !strings.HasPrefix(raw, "mod:") {
					n++
					hrp := m.eng.app.prefix()
					if kind == "val" {
						hrp += "valoper"
					}
					ev.addr[raw] = genAddress(hrp, n)
				}
			}
		}
	}
	for _, t := range m.ufArgs["validcid"] {
		app := m.in.UF("validcid", SBool, t)
		if v, ok := model[termKey(app)]; ok && strings.TrimSpace(v) == "true" && !t.IsConst() {
			raw := parseSmtString(model[termKey(t)])
			if _, taken := ev.addr[raw]; !taken {
				ev.addr[raw] = "bafkreigh2akiscaildcqabsyg3dfr6chu3fgpregiymsck7e7aqa4s52zy"
			}
		}
	}
	for _, t := range m.ufArgs["validdec"] {
		app := m.in.UF("validdec", SBool, t)
		if v, ok := model[termKey(app)]; ok && strings.TrimSpace(v) == "true" && !t.IsConst() {
			raw := parseSmtString(model[termKey(t)])
			if _, isAddr := ev.addr[raw]; isAddr {
				continue
			}
			if zv, ok := parseSmtInt(model[termKey(m.in.UF("decof", SInt, t))]); ok {
				ev.addr[raw] = decString(zv)
			}
		}
	}
	cf := &CaseFile{AddrMap: ev.addr, Label: label, Nondet: map[string]interface{}{}, Params: map[string]interface{}{}, Trace: append([]int{}, m.trace...)}
	for _, n := range m.nondets {
		j := ev.jsonOf(n.Val, n.Typ)
		cf.Nondet[n.Name] = j
		cf.NondetSeq = append(cf.NondetSeq, NondetItem{Name: n.Name, JSON: j})
	}
	for _, name := range m.w.order {
		for _, e := range m.w.stores[name].init {
			kb := ev.bytesOf(e.key)
			sc := StoreCase{Store: name, KeyHex: hex.EncodeToString(kb), KeyText: printable(kb), Present: e.present}
			if e.obj != nil {
				sc.Type = typeString(e.objType)
				sc.JSON = ev.jsonOf(e.obj, e.objType)
			} else if e.raw != nil {
				sc.RawHex = hex.EncodeToString(ev.bytesOf(e.raw))
				sc.IsRaw = true
			}
			cf.Stores = append(cf.Stores, sc)
		}
	}
	for name, v := range m.paramInit {
		cf.Params[name] = ev.jsonOf(v, under(m.paramProto[name]).(*types.Pointer).Elem())
	}
	for _, g := range m.w.ghost {
		cf.SigResults = append(cf.SigResults, g.ok)
	}
	for _, b := range m.w.bankInit {
		cf.Bank = append(cf.Bank, BankCase{Addr: ev.strOf(b.addr), Denom: ev.strOf(b.denom), Amount: ev.intOf(b.val).String()})
	}
	for i, t := range m.w.envSyms {
		cf.Env = append(cf.Env, fmt.Sprintf("%d:%s=%s", i, t.name, ev.intOf(t).String()))
		cf.EnvInts = append(cf.EnvInts, ev.intOf(t).String())
	}
	cf.Env = append(cf.Env, m.w.envLog...)
	if os.Getenv("GOSYM_DEBUG") != "" {
		cf.Model = model
	}
	return cf
}

func printable(b []byte) string {
	var sb strings.Builder
	for _, c := range b {
		if c >= 32 && c < 127 {
			sb.WriteByte(c)
		} else {
			fmt.Fprintf(&sb, "\\x%02x", c)
		}
	}
	return sb.String()
}
