package main

// Uninterpreted models of the encoding / hashing / signature libraries the DID handlers call
// (DESIGN §3.3 "crypto / parsing"): hashes and encodings are functions of their input, signature
// verification is an uninterpreted predicate, json.Marshal of a string map is its sorted rendering.

import (
	"strings"
	"regexp"
	"fmt"
	"go/types"
	"hash/fnv"
	"sort"

	"golang.org/x/tools/go/ssa"
)

// hashArg abstracts decimal renderings inside a hash pre-image by an uninterpreted function: the hash is
// uninterpreted anyway, only equality of pre-images matters, and str.from_int under a UF stalls the string
// solvers. (Equal numbers still give equal pre-images; distinct numbers may collide - an over-approximation.)
func (m *Machine) hashArg(t *Term) *Term {
	switch t.op {
	case "str.++":
		ps := make([]*Term, len(t.args))
		for i, a := range t.args {
			ps[i] = m.hashArg(a)
		}
		return m.in.Concat(ps...)
	case "ite":
		return m.in.Ite(t.args[0], m.hashArg(t.args[1]), m.hashArg(t.args[2]))
	case "str.from_int":
		return m.in.UF("itoa", SString, t.args[0])
	}
	return t
}

func (m *Machine) ufBytes(name string, args ...*Term) *BytesVal {
	return &BytesVal{segs: []Seg{{k: SegUF, t: m.in.UF(name, SString, args...)}}}
}

// jsonObject renders {"k":"v",...} for entries sorted by key (symbolic order via a compare-exchange network).
func (m *Machine) jsonObject(ks, vs []*Term) *Term {
	n := len(ks)
	if n > 3 {
		m.abort("bound", "json.Marshal of a map with more than 3 entries at %s", m.repoSite())
	}
	k := append([]*Term{}, ks...)
	v := append([]*Term{}, vs...)
	cx := func(i, j int) {
		sw := m.in.StrLt(k[j], k[i])
		ki, kj := m.in.Ite(sw, k[j], k[i]), m.in.Ite(sw, k[i], k[j])
		vi, vj := m.in.Ite(sw, v[j], v[i]), m.in.Ite(sw, v[i], v[j])
		k[i], k[j], v[i], v[j] = ki, kj, vi, vj
	}
	switch n {
	case 2:
		cx(0, 1)
	case 3:
		cx(0, 1)
		cx(1, 2)
		cx(0, 1)
	}
	parts := []*Term{m.in.Str("{")}
	for i := 0; i < n; i++ {
		if i > 0 {
			parts = append(parts, m.in.Str(","))
		}
		parts = append(parts, m.in.Str("\""), m.in.UF("jsonesc", SString, k[i]), m.in.Str("\":\""), m.in.UF("jsonesc", SString, v[i]), m.in.Str("\""))
	}
	parts = append(parts, m.in.Str("}"))
	return m.in.Concat(parts...)
}

const caipPattern = "^[-a-z0-9]{3,8}:[-_a-zA-Z0-9]{1,32}:[-.%a-zA-Z0-9]{1,64}$"

var (
	caipGo  = regexp.MustCompile(caipPattern)
	caipGo1 = regexp.MustCompile("^[-a-z0-9]{3,8}$")
	caipGo2 = regexp.MustCompile("^[-_a-zA-Z0-9]{1,32}$")
	caipGo3 = regexp.MustCompile("^[-.%a-zA-Z0-9]{1,64}$")
)

const (
	reLower = `(re.range "a" "z")`
	reUpper = `(re.range "A" "Z")`
	reDigit = `(re.range "0" "9")`
	caipRe1 = `((_ re.loop 3 8) (re.union (str.to_re "-") ` + reLower + ` ` + reDigit + `))`
	caipRe2 = `((_ re.loop 1 32) (re.union (str.to_re "-") (str.to_re "_") ` + reLower + ` ` + reUpper + ` ` + reDigit + `))`
	caipRe3 = `((_ re.loop 1 64) (re.union (str.to_re "-") (str.to_re ".") (str.to_re "%") ` + reLower + ` ` + reUpper + ` ` + reDigit + `))`
	caipRe  = `(re.++ ` + caipRe1 + ` (str.to_re ":") ` + caipRe2 + ` (str.to_re ":") ` + caipRe3 + `)`
)

func init() {
	reg("encoding/json.Marshal", func(m *Machine, fn *ssa.Function, a []Value) Value {
		iv := a[0].(*IfaceVal)
		mv, ok := iv.v.(*MapVal)
		if !ok {
			if m.initMode > 0 {
				return m.zeroResults(fn) // package initialisers: same policy as any call across the intrinsic boundary
			}
			if st, isStr := iv.v.(*Term); isStr && st.sort == SString {
				return TupleVal{m.toBytes(m.in.Concat(m.in.Str("\""), m.in.UF("jsonesc", SString, st), m.in.Str("\""))), nilIface}
			}
			m.unsupported("json.Marshal of %T at %s", iv.v, m.repoSite())
		}
		var ks, vs []*Term
		if mv.m != nil {
			for _, e := range mv.m.entries {
				kt, ok1 := e.k.(*Term)
				vt, ok2 := e.v.(*Term)
				if !ok1 || !ok2 {
					m.unsupported("json.Marshal of a non-string map")
				}
				ks, vs = append(ks, kt), append(vs, vt)
			}
		}
		return TupleVal{m.toBytes(m.jsonObject(ks, vs)), nilIface}
	})
	reg("github.com/tendermint/tendermint/crypto.Sha256", func(m *Machine, fn *ssa.Function, a []Value) Value {
		return m.ufBytes("sha256", m.hashArg(m.bytesToStr(m.toBytes(a[0]))))
	})
	reg("encoding/hex.EncodeToString", func(m *Machine, fn *ssa.Function, a []Value) Value {
		x := m.bytesToStr(m.toBytes(a[0]))
		e := m.in.UF("hexenc", SString, x)
		if !x.IsConst() {
			m.addPC(m.in.Eq(m.in.UF("hexdec", SString, e), x))
			m.addPC(m.in.UF("validhex", SBool, e))
		}
		return e
	})
	reg("encoding/hex.DecodeString", func(m *Machine, fn *ssa.Function, a []Value) Value {
		s := a[0].(*Term)
		ok := m.in.UF("validhex", SBool, s)
		if m.branch(ok) {
			return TupleVal{m.ufBytes("hexdec", s), nilIface}
		}
		return TupleVal{&BytesVal{isNil: true}, m.newError(m.in.Str("invalid hex"))}
	})
	reg("(*encoding/base64.Encoding).EncodeToString", func(m *Machine, fn *ssa.Function, a []Value) Value {
		x := m.bytesToStr(m.toBytes(a[1]))
		e := m.in.UF("b64enc", SString, x)
		if !x.IsConst() {
			m.addPC(m.in.Eq(m.in.UF("b64dec", SString, e), x))
			m.addPC(m.in.UF("validb64", SBool, e))
		}
		return e
	})
	reg("(*encoding/base64.Encoding).DecodeString", func(m *Machine, fn *ssa.Function, a []Value) Value {
		s := a[1].(*Term)
		ok := m.in.UF("validb64", SBool, s)
		if m.branch(ok) {
			return TupleVal{m.ufBytes("b64dec", s), nilIface}
		}
		return TupleVal{&BytesVal{isNil: true}, m.newError(m.in.Str("illegal base64 data"))}
	})
	reg("regexp.MatchString", func(m *Machine, fn *ssa.Function, a []Value) Value {
		pat, s := a[0].(*Term), a[1].(*Term)
		if !pat.IsConst() {
			m.unsupported("regexp with symbolic pattern")
		}
		// the CAIP-10 account id pattern is encoded exactly as an SMT regular expression; a match also gives the
		// three ':'-free parts, which licenses strings.Split(s, ":") without forking
		if pat.sv == caipPattern {
			col := m.in.Str(":")
			// an id built as "<net>:<chain>:" ++ x: the constant part is decided here, x only has to be a CAIP address part
			if ps := m.in.concatParts(s); len(ps) >= 2 && ps[0].IsConst() {
				pre := ps[0].sv
				if i := strings.Index(pre, ":"); i >= 0 {
					if j := strings.Index(pre[i+1:], ":"); j >= 0 {
						j += i + 1
						netS, chainS, rest3 := pre[:i], pre[i+1:j], pre[j+1:]
						if !caipGo1.MatchString(netS) || !caipGo2.MatchString(chainS) || (rest3 != "" && !caipGo3.MatchString(rest3)) {
							return TupleVal{m.in.Bool(false), nilIface}
						}
						tail := ps[1:]
						rem := m.in.Concat(append([]*Term{m.in.Str(rest3)}, tail...)...)
						var ok *Term
						if rest3 == "" && len(tail) == 1 && m.pcHolds(m.in.UF("validbech32_acc", SBool, tail[0])) {
							ok = m.in.Bool(true) // a bech32 address is 42 lower-case alphanumerics
						} else {
							ok = m.in.StrInRe(rem, caipRe3, nil)
						}
						m.splitMemo = append(m.splitMemo, splitMemo{s: s, sep: col, guard: ok, parts: []*Term{m.in.Str(netS), m.in.Str(chainS), rem}})
						if ok.IsConst() {
							m.splitMemo[len(m.splitMemo)-1].guard = nil
						}
						return TupleVal{ok, nilIface}
					}
				}
			}
			if s.IsConst() {
				return TupleVal{m.in.Bool(caipGo.MatchString(s.sv)), nilIface}
			}
			// a free string: the match is an uninterpreted predicate that implies the exact shape of the three parts
			// (so every model of a matching string matches the real pattern); full-string regular-expression
			// membership together with the part equations stalls all three solvers
			ok := m.in.UF("caip_ok", SBool, s)
			p1, p2, p3 := m.in.UF("caip_net", SString, s), m.in.UF("caip_chain", SString, s), m.in.UF("caip_addr", SString, s)
			m.addPC(m.in.Implies(ok, m.in.And(
				m.in.Eq(s, m.in.Concat(p1, col, p2, col, p3)),
				m.in.Not(m.in.StrContains(p1, col)), m.in.Not(m.in.StrContains(p2, col)), m.in.Not(m.in.StrContains(p3, col)),
				m.in.Ge(m.in.StrLen(p1), m.in.I64(3)), m.in.Le(m.in.StrLen(p1), m.in.I64(8)),
				m.in.Ge(m.in.StrLen(p2), m.in.I64(1)), m.in.Le(m.in.StrLen(p2), m.in.I64(32)),
				m.in.Ge(m.in.StrLen(p3), m.in.I64(1)), m.in.Le(m.in.StrLen(p3), m.in.I64(64)))))
			// the character classes only matter for replaying a model against the real pattern: they are added to the
			// final counterexample query (see checkViolation), not to every feasibility query
			m.realise = append(m.realise, m.in.Implies(ok, m.in.And(
				m.in.StrInRe(p1, caipRe1, nil), m.in.StrInRe(p2, caipRe2, nil), m.in.StrInRe(p3, caipRe3, nil))))
			m.splitMemo = append(m.splitMemo, splitMemo{s: s, sep: col, guard: ok, parts: []*Term{p1, p2, p3}})
			return TupleVal{ok, nilIface}
		}
		if smt, ok := reToSmt(pat.sv); ok {
			if g, err := regexp.Compile(pat.sv); err == nil {
				return TupleVal{m.in.StrInRe(s, smt, g), nilIface}
			}
		}
		h := fnv.New32a()
		h.Write([]byte(pat.sv))
		return TupleVal{m.in.UF(fmt.Sprintf("regex_%x", h.Sum32()), SBool, s), nilIface}
	})
	// secp256k1 public keys: address and signature check are uninterpreted
	reg("(*github.com/cosmos/cosmos-sdk/crypto/keys/secp256k1.PubKey).Address", func(m *Machine, fn *ssa.Function, a []Value) Value {
		p := m.force(a[0]).(Pointer)
		sv := m.load(p).(*StructVal)
		return m.ufBytes("pkaddr", m.bytesToStr(m.toBytes(sv.f[0])))
	})
	reg("(*github.com/cosmos/cosmos-sdk/crypto/keys/secp256k1.PubKey).VerifySignature", func(m *Machine, fn *ssa.Function, a []Value) Value {
		p := m.force(a[0]).(Pointer)
		sv := m.load(p).(*StructVal)
		pk, msg, sig := m.bytesToStr(m.toBytes(sv.f[0])), m.bytesToStr(m.toBytes(a[1])), m.bytesToStr(m.toBytes(a[2]))
		v := m.in.UF("secpverify", SBool, pk, msg, sig)
		// a signature verifies at most one message under one key (no collisions)
		for _, o := range m.sigChecks {
			if o.v != v {
				m.addPC(m.in.Or(m.in.Not(v), m.in.Not(o.v), m.in.Not(m.in.Eq(pk, o.pk)), m.in.Not(m.in.Eq(sig, o.sig)), m.in.Eq(msg, o.msg)))
			}
		}
		m.sigChecks = append(m.sigChecks, sigCheck{pk: pk, msg: msg, sig: sig, v: v})
		return v
	})
	reg(sdkTypes+".Bech32ifyAddressBytes", func(m *Machine, fn *ssa.Function, a []Value) Value {
		return TupleVal{m.in.UF("bech32ify", SString, a[0].(*Term), m.bytesToStr(m.toBytes(a[1]))), nilIface}
	})
	// EIP-191 branch of the binding proof: recovery is an uninterpreted function of (message, signature)
	reg("github.com/ethereum/go-ethereum/crypto.NewKeccakState", func(m *Machine, fn *ssa.Function, a []Value) Value {
		return &IfaceVal{t: m.eng.handleType(), v: &Handle{kind: "keccak"}}
	})
	reg("github.com/ethereum/go-ethereum/crypto.HashData", func(m *Machine, fn *ssa.Function, a []Value) Value {
		h := m.ufBytes("keccak", m.bytesToStr(m.toBytes(a[1])))
		rt := fn.Signature.Results().At(0).Type()
		arr := m.zero(rt).(*ArrayVal)
		e := append([]Value{}, arr.e...)
		e[0] = &Handle{kind: "hash32", obj: h.segs[0].t}
		return &ArrayVal{e: e}
	})
}

var _ = sort.Strings
var _ types.Type

type sigCheck struct{ pk, msg, sig, v *Term }
