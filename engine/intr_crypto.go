package main

// Uninterpreted models of the encoding / hashing / signature libraries the DID handlers call
// (DESIGN §3.3 "crypto / parsing"): hashes and encodings are functions of their input, signature
// verification is an uninterpreted predicate, json.Marshal of a string map is its sorted rendering.

import (
	"fmt"
	"go/types"
	"hash/fnv"
	"sort"

	"golang.org/x/tools/go/ssa"
)

// hashArg abstracts decimal renderings inside a hash pre-image by an uninterpreted function: the hash is
// uninterpreted anyway, only equality of pre-images matters, and str.from_int under a UF stalls the string
// solvers. (Equal numbers still give equal pre-images; distinct numbers may collide - an over-approximation.)
func (m *Machine) hashArg(t *Term) *Term {
	switch t.op {
	case "str.++":
		ps := make([]*Term, len(t.args))
		for i, a := range t.args {
			ps[i] = m.hashArg(a)
		}
		return m.in.Concat(ps...)
	case "ite":
		return m.in.Ite(t.args[0], m.hashArg(t.args[1]), m.hashArg(t.args[2]))
	case "str.from_int":
		return m.in.UF("itoa", SString, t.args[0])
	}
	return t
}

func (m *Machine) ufBytes(name string, args ...*Term) *BytesVal {
	return &BytesVal{segs: []Seg{{k: SegUF, t: m.in.UF(name, SString, args...)}}}
}

// jsonObject renders {"k":"v",...} for entries sorted by key (symbolic order via a compare-exchange network).
func (m *Machine) jsonObject(ks, vs []*Term) *Term {
	n := len(ks)
	if n > 3 {
		m.abort("bound", "json.Marshal of a map with more than 3 entries at %s", m.repoSite())
	}
	k := append([]*Term{}, ks...)
	v := append([]*Term{}, vs...)
	cx := func(i, j int) {
		sw := m.in.StrLt(k[j], k[i])
		ki, kj := m.in.Ite(sw, k[j], k[i]), m.in.Ite(sw, k[i], k[j])
		vi, vj := m.in.Ite(sw, v[j], v[i]), m.in.Ite(sw, v[i], v[j])
		k[i], k[j], v[i], v[j] = ki, kj, vi, vj
	}
	switch n {
	case 2:
		cx(0, 1)
	case 3:
		cx(0, 1)
		cx(1, 2)
		cx(0, 1)
	}
	parts := []*Term{m.in.Str("{")}
	for i := 0; i < n; i++ {
		if i > 0 {
			parts = append(parts, m.in.Str(","))
		}
		parts = append(parts, m.in.Str("\""), m.in.UF("jsonesc", SString, k[i]), m.in.Str("\":\""), m.in.UF("jsonesc", SString, v[i]), m.in.Str("\""))
	}
	parts = append(parts, m.in.Str("}"))
	return m.in.Concat(parts...)
}

func init() {
	reg("encoding/json.Marshal", func(m *Machine, fn *ssa.Function, a []Value) Value {
		iv := a[0].(*IfaceVal)
		mv, ok := iv.v.(*MapVal)
		if !ok {
			if m.initMode > 0 {
				return m.zeroResults(fn) // package initialisers: same policy as any call across the intrinsic boundary
			}
			if st, isStr := iv.v.(*Term); isStr && st.sort == SString {
				return TupleVal{m.toBytes(m.in.Concat(m.in.Str("\""), m.in.UF("jsonesc", SString, st), m.in.Str("\""))), nilIface}
			}
			m.unsupported("json.Marshal of %T at %s", iv.v, m.repoSite())
		}
		var ks, vs []*Term
		if mv.m != nil {
			for _, e := range mv.m.entries {
				kt, ok1 := e.k.(*Term)
				vt, ok2 := e.v.(*Term)
				if !ok1 || !ok2 {
					m.unsupported("json.Marshal of a non-string map")
				}
				ks, vs = append(ks, kt), append(vs, vt)
			}
		}
		return TupleVal{m.toBytes(m.jsonObject(ks, vs)), nilIface}
	})
	reg("github.com/tendermint/tendermint/crypto.Sha256", func(m *Machine, fn *ssa.Function, a []Value) Value {
		return m.ufBytes("sha256", m.hashArg(m.bytesToStr(m.toBytes(a[0]))))
	})
	reg("encoding/hex.EncodeToString", func(m *Machine, fn *ssa.Function, a []Value) Value {
		return m.in.UF("hexenc", SString, m.bytesToStr(m.toBytes(a[0])))
	})
	reg("encoding/hex.DecodeString", func(m *Machine, fn *ssa.Function, a []Value) Value {
		s := a[0].(*Term)
		ok := m.in.UF("validhex", SBool, s)
		if m.branch(ok) {
			return TupleVal{m.ufBytes("hexdec", s), nilIface}
		}
		return TupleVal{&BytesVal{isNil: true}, m.newError(m.in.Str("invalid hex"))}
	})
	reg("(*encoding/base64.Encoding).EncodeToString", func(m *Machine, fn *ssa.Function, a []Value) Value {
		return m.in.UF("b64enc", SString, m.bytesToStr(m.toBytes(a[1])))
	})
	reg("(*encoding/base64.Encoding).DecodeString", func(m *Machine, fn *ssa.Function, a []Value) Value {
		s := a[1].(*Term)
		ok := m.in.UF("validb64", SBool, s)
		if m.branch(ok) {
			return TupleVal{m.ufBytes("b64dec", s), nilIface}
		}
		return TupleVal{&BytesVal{isNil: true}, m.newError(m.in.Str("illegal base64 data"))}
	})
	reg("regexp.MatchString", func(m *Machine, fn *ssa.Function, a []Value) Value {
		pat, s := a[0].(*Term), a[1].(*Term)
		if !pat.IsConst() {
			m.unsupported("regexp with symbolic pattern")
		}
		h := fnv.New32a()
		h.Write([]byte(pat.sv))
		ok := m.in.UF(fmt.Sprintf("regex_%x", h.Sum32()), SBool, s)
		// the CAIP-10 account id pattern: three non-empty ':'-separated parts without further ':'
		if pat.sv == "^[-a-z0-9]{3,8}:[-_a-zA-Z0-9]{1,32}:[-.%a-zA-Z0-9]{1,64}$" {
			p1, p2, p3 := m.in.UF("caip_net", SString, s), m.in.UF("caip_chain", SString, s), m.in.UF("caip_addr", SString, s)
			col := m.in.Str(":")
			m.addPC(m.in.Implies(ok, m.in.And(
				m.in.Eq(s, m.in.Concat(p1, col, p2, col, p3)),
				m.in.Not(m.in.StrContains(p1, col)), m.in.Not(m.in.StrContains(p2, col)), m.in.Not(m.in.StrContains(p3, col)),
				m.in.Ge(m.in.StrLen(p1), m.in.I64(3)), m.in.Ge(m.in.StrLen(p2), m.in.I64(1)), m.in.Ge(m.in.StrLen(p3), m.in.I64(1)))))
			m.splitMemo = append(m.splitMemo, splitMemo{s: s, sep: col, guard: ok, parts: []*Term{p1, p2, p3}})
		}
		return TupleVal{ok, nilIface}
	})
	// secp256k1 public keys: address and signature check are uninterpreted
	reg("(*github.com/cosmos/cosmos-sdk/crypto/keys/secp256k1.PubKey).Address", func(m *Machine, fn *ssa.Function, a []Value) Value {
		p := m.force(a[0]).(Pointer)
		sv := m.load(p).(*StructVal)
		return m.ufBytes("pkaddr", m.bytesToStr(m.toBytes(sv.f[0])))
	})
	reg("(*github.com/cosmos/cosmos-sdk/crypto/keys/secp256k1.PubKey).VerifySignature", func(m *Machine, fn *ssa.Function, a []Value) Value {
		p := m.force(a[0]).(Pointer)
		sv := m.load(p).(*StructVal)
		return m.in.UF("secpverify", SBool, m.bytesToStr(m.toBytes(sv.f[0])), m.bytesToStr(m.toBytes(a[1])), m.bytesToStr(m.toBytes(a[2])))
	})
	reg(sdkTypes+".Bech32ifyAddressBytes", func(m *Machine, fn *ssa.Function, a []Value) Value {
		return TupleVal{m.in.UF("bech32ify", SString, a[0].(*Term), m.bytesToStr(m.toBytes(a[1]))), nilIface}
	})
	// EIP-191 branch of the binding proof: recovery is an uninterpreted function of (message, signature)
	reg("github.com/ethereum/go-ethereum/crypto.NewKeccakState", func(m *Machine, fn *ssa.Function, a []Value) Value {
		return &IfaceVal{t: m.eng.handleType(), v: &Handle{kind: "keccak"}}
	})
	reg("github.com/ethereum/go-ethereum/crypto.HashData", func(m *Machine, fn *ssa.Function, a []Value) Value {
		h := m.ufBytes("keccak", m.bytesToStr(m.toBytes(a[1])))
		rt := fn.Signature.Results().At(0).Type()
		arr := m.zero(rt).(*ArrayVal)
		e := append([]Value{}, arr.e...)
		e[0] = &Handle{kind: "hash32", obj: h.segs[0].t}
		return &ArrayVal{e: e}
	})
}

var _ = sort.Strings
var _ types.Type
