package main

// Contract stubs for the sao-did signature library (DESIGN §3.3): NewDidManagerWithDid / VerifyJWS /
// GetKid / KidToDid, base64url, and the generated proto Marshal of request payloads.

import (
	"regexp"
	"go/types"
	"strings"

	"golang.org/x/tools/go/ssa"
)

type GhostVerify struct {
	did *Term
	tok *Token // marshal token of the payload (snapshot of the signed request)
	ok  bool
}

const didPkg = "github.com/SaoNetwork/sao-did"

var didPrefixRe = regexp.MustCompile("^did:[a-z0-9]+:$")

// didIdRe: the plain id class, in exactly the form the translator gives the harness's pattern (so that the
// path condition can be looked up syntactically)
var didIdRe, _ = reToSmt("^[a-zA-Z0-9._-]+$")

func init() {
	reg(didPkg+".NewDidManagerWithDid", func(m *Machine, fn *ssa.Function, a []Value) Value {
		did := a[0].(*Term)
		ok := m.in.UF("parsabledid", SBool, did)
		mt := fn.Signature.Results().At(0).Type().(*types.Pointer).Elem()
		if m.branch(ok) {
			c := m.newCell(mt, 1, "didmanager")
			c.elems[0] = &Handle{kind: "didmgr", obj: did}
			return TupleVal{Pointer{cell: c}, nilIface}
		}
		return TupleVal{Pointer{}, m.newError(m.in.Str("invalid did"))}
	})
	reg("(*"+didPkg+".DidManager).VerifyJWS", func(m *Machine, fn *ssa.Function, a []Value) Value {
		p := m.force(a[0]).(Pointer)
		h := m.load(p).(*Handle)
		did := h.obj.(*Term)
		jws := a[1].(*StructVal) // GeneralJWS{Payload string, Signatures []JwsSignature}
		payload := jws.f[0].(*Term)
		sigs := m.sliceOf(jws.f[1])
		if sigs.len == 0 {
			m.goPanicf("index-out-of-range", "VerifyJWS without signatures")
		}
		sig := sigs.cell.elems[sigs.off].(*StructVal) // {Protected, Signature}
		prot, sg := sig.f[0].(*Term), sig.f[1].(*Term)
		kid := m.in.UF("kidof", SString, prot)
		kidok := m.in.UF("kidok", SBool, prot)
		sigok := m.in.UF("sigok", SBool, did, payload, prot, sg)
		// contract (did.go:105-121): success implies the kid in the protected header names the manager's DID
		m.addPC(m.in.Implies(sigok, m.in.And(kidok, m.in.Eq(m.in.UF("didofkid", SString, kid), did))))
		if m.branch(sigok) {
			m.w.ghost = append(m.w.ghost, GhostVerify{did: did, tok: m.payloadTok(payload), ok: true})
			return TupleVal{kid, nilIface}
		}
		m.w.ghost = append(m.w.ghost, GhostVerify{did: did, ok: false})
		return TupleVal{m.in.Str(""), m.newError(m.in.Str("verify JWS failed"))}
	})
	reg("("+didPkg+"/types.JwsSignature).GetKid", func(m *Machine, fn *ssa.Function, a []Value) Value {
		sig := a[0].(*StructVal)
		prot := sig.f[0].(*Term)
		kidok := m.in.UF("kidok", SBool, prot)
		if m.branch(kidok) {
			kid := m.in.UF("kidof", SString, prot)
			m.addPC(m.in.Gt(m.in.StrLen(kid), m.in.I64(0)))
			return TupleVal{kid, nilIface}
		}
		return TupleVal{m.in.Str(""), m.newError(m.in.Str("missing kid"))}
	})
	reg(didPkg+"/util.KidToDid", func(m *Machine, fn *ssa.Function, a []Value) Value {
		kid := a[0].(*Term)
		ok := m.in.UF("kidparsable", SBool, kid)
		d := m.in.UF("didofkid", SString, kid)
		// a kid whose DID verified is parsable
		if m.branch(ok) {
			return TupleVal{d, nilIface}
		}
		return TupleVal{m.in.Str(""), m.newError(m.in.Str("invalid kid"))}
	})
	// parser.Parse: did:<method>:<id>[?query][#frag] as uninterpreted components of the input
	reg(didPkg+"/parser.Parse", func(m *Machine, fn *ssa.Function, a []Value) Value {
		s := a[0].(*Term)
		ok := m.in.UF("parsabledid", SBool, s)
		dt := fn.Signature.Results().At(0).Type().(*types.Pointer).Elem()
		// a DID built as "did:<method>:" ++ id with an id known to be plain ([a-zA-Z0-9._-]+, no path / query /
		// fragment) is parsed exactly: success, that method, that id
		if ps := m.in.concatParts(s); len(ps) == 2 && ps[0].IsConst() && didPrefixRe.MatchString(ps[0].sv) && m.pcHolds(m.in.StrInRe(ps[1], didIdRe, nil)) {
			st := under(dt).(*types.Struct)
			f := make([]Value, st.NumFields())
			for i := 0; i < st.NumFields(); i++ {
				f[i] = m.zero(st.Field(i).Type())
				switch st.Field(i).Name() {
				case "Method":
					f[i] = m.in.Str(strings.TrimSuffix(strings.TrimPrefix(ps[0].sv, "did:"), ":"))
				case "ID":
					f[i] = ps[1]
				}
			}
			c := m.newCell(dt, 1, "did")
			c.elems[0] = &StructVal{f: f}
			return TupleVal{Pointer{cell: c}, nilIface}
		}
		if !m.branch(ok) {
			return TupleVal{Pointer{}, m.newError(m.in.Str("invalid did"))}
		}
		// grammar facts ("did:" method ":" id ..., method colon-free) in the cheap form the handlers need:
		// the method is "sid" / "key" exactly when the text starts with "did:sid:" / "did:key:"
		{
			meth := m.in.UF("didmethod", SString, s)
			for _, k := range []string{"sid", "key"} {
				pre, is := m.in.StrPrefixOf(m.in.Str("did:"+k+":"), s), m.in.Eq(meth, m.in.Str(k))
				m.addPC(m.in.Or(m.in.Not(pre), is))
				m.addPC(m.in.Or(pre, m.in.Not(is)))
			}
			m.addPC(m.in.StrPrefixOf(m.in.Str("did:"), s))
		}
		st := under(dt).(*types.Struct)
		f := make([]Value, st.NumFields())
		for i := 0; i < st.NumFields(); i++ {
			f[i] = m.zero(st.Field(i).Type())
			switch st.Field(i).Name() {
			case "Method":
				meth := m.in.UF("didmethod", SString, s)
				// the method is one of the two the chain knows, or something else
				f[i] = meth
			case "ID":
				f[i] = m.in.UF("didid", SString, s)
			case "Query":
				f[i] = m.in.UF("didquery", SString, s)
			case "Fragment":
				f[i] = m.in.UF("didfragment", SString, s)
			}
		}
		c := m.newCell(dt, 1, "did")
		c.elems[0] = &StructVal{f: f}
		return TupleVal{Pointer{cell: c}, nilIface}
	})
	// uuid.NewV5(ns, seed).String(): an injective-looking uninterpreted function of the seed
	reg("github.com/satori/go.uuid.FromStringOrNil", func(m *Machine, fn *ssa.Function, a []Value) Value {
		return m.zero(fn.Signature.Results().At(0).Type())
	})
	reg("github.com/satori/go.uuid.NewV5", func(m *Machine, fn *ssa.Function, a []Value) Value {
		ut := fn.Signature.Results().At(0).Type()
		arr := m.zero(ut).(*ArrayVal)
		e := append([]Value{}, arr.e...)
		e[0] = &Handle{kind: "uuidseed", obj: a[1].(*Term)}
		return &ArrayVal{e: e}
	})
	reg("(github.com/satori/go.uuid.UUID).String", func(m *Machine, fn *ssa.Function, a []Value) Value {
		arr := a[0].(*ArrayVal)
		if h, ok := arr.e[0].(*Handle); ok && h.kind == "uuidseed" {
			u := m.in.UF("uuidv5", SString, h.obj.(*Term))
			m.addPC(m.in.Eq(m.in.StrLen(u), m.in.I64(36)))
			return u
		}
		return m.in.Str("00000000-0000-0000-0000-000000000000")
	})
	reg("github.com/dvsekhvalnov/jose2go/base64url.Encode", func(m *Machine, fn *ssa.Function, a []Value) Value {
		b := m.toBytes(a[0])
		if len(b.segs) == 1 && b.segs[0].k == SegTok {
			s := m.in.UF("b64tok", SString, m.in.I64(int64(b.segs[0].tok.id)))
			m.payloads = append(m.payloads, payloadRec{s: s, tok: b.segs[0].tok})
			return s
		}
		return m.in.UF("b64", SString, m.bytesToStr(b))
	})
	// Verified(owner, msgPtr): the ghost log holds a successful verification by `owner` over exactly *msgPtr
	reg(symPkg+"Verified", func(m *Machine, fn *ssa.Function, a []Value) Value {
		owner := a[0].(*Term)
		iv := a[1].(*IfaceVal)
		cur := m.load(m.force(iv.v).(Pointer))
		et := under(iv.t).(*types.Pointer).Elem()
		r := m.in.Bool(false)
		for _, g := range m.w.ghost {
			if !g.ok || g.tok == nil || !types.Identical(types.Unalias(g.tok.typ), types.Unalias(et)) {
				continue
			}
			r = m.in.Or(r, m.in.And(m.in.Eq(g.did, owner), m.deepEq(g.tok.val, cur)))
		}
		return r
	})
	// DeepEq(a, b): structural equality of two values of the same type (fork-free)
	reg(symPkg+"DeepEq", func(m *Machine, fn *ssa.Function, a []Value) Value {
		x, y := a[0].(*IfaceVal), a[1].(*IfaceVal)
		return m.deepEq(x.v, y.v)
	})
	// VerifiedBy(did): some request was successfully verified for did on this path
	reg(symPkg+"VerifiedBy", func(m *Machine, fn *ssa.Function, a []Value) Value {
		did := a[0].(*Term)
		r := m.in.Bool(false)
		for _, g := range m.w.ghost {
			if g.ok {
				r = m.in.Or(r, m.in.Eq(g.did, did))
			}
		}
		return r
	})
}

type payloadRec struct {
	s   *Term
	tok *Token
}

func (m *Machine) payloadTok(payload *Term) *Token {
	for _, p := range m.payloads {
		if p.s == payload {
			return p.tok
		}
	}
	return nil
}

// isProtoMarshal recognises generated `func (m *T) Marshal() ([]byte, error)` of the SAO modules.
func isProtoMarshal(fn *ssa.Function) bool {
	if fn.Name() != "Marshal" || fn.Pkg == nil || fn.Signature.Recv() == nil {
		return false
	}
	if !strings.HasPrefix(fn.Pkg.Pkg.Path(), "github.com/SaoNetwork/sao/x/") || !strings.HasSuffix(fn.Pkg.Pkg.Path(), "/types") {
		return false
	}
	sig := fn.Signature
	return sig.Params().Len() == 0 && sig.Results().Len() == 2
}

// deepEq: structural equality of two values of the same type as a Bool term.
func (m *Machine) deepEq(a, b Value) *Term {
	a, b = m.forceIfResolved(a), m.forceIfResolved(b)
	switch x := a.(type) {
	case *Term:
		if y, ok := b.(*Term); ok {
			return m.in.Eq(x, y)
		}
	case *StructVal:
		y, ok := b.(*StructVal)
		if !ok || len(x.f) != len(y.f) {
			return m.in.Bool(false)
		}
		r := m.in.Bool(true)
		for i := range x.f {
			r = m.in.And(r, m.deepEq(x.f[i], y.f[i]))
		}
		return r
	case *ArrayVal:
		y := b.(*ArrayVal)
		r := m.in.Bool(true)
		for i := range x.e {
			r = m.in.And(r, m.deepEq(x.e[i], y.e[i]))
		}
		return r
	case *SliceVal:
		y, ok := b.(*SliceVal)
		if !ok {
			if by, ok2 := b.(*BytesVal); ok2 {
				return m.bytesEq(m.toBytes(x), by)
			}
			return m.in.Bool(false)
		}
		if x.lazy != nil || y.lazy != nil {
			return m.in.Bool(x.lazy == y.lazy) // unresolved lazies are equal iff they are the same object
		}
		if x.len != y.len {
			return m.in.Bool(false)
		}
		r := m.in.Bool(true)
		for i := 0; i < x.len; i++ {
			r = m.in.And(r, m.deepEq(x.cell.elems[x.off+i], y.cell.elems[y.off+i]))
		}
		return r
	case *BytesVal:
		return m.bytesEq(x, m.toBytes(b))
	case Pointer:
		y, ok := b.(Pointer)
		if !ok {
			return m.in.Bool(false)
		}
		if x.cell == nil || y.cell == nil {
			return m.in.Bool(x.cell == nil && y.cell == nil)
		}
		return m.deepEq(m.load(x), m.load(y))
	case *LazyPtr:
		return m.in.Bool(a == b)
	case *BigVal:
		if y, ok := b.(*BigVal); ok {
			return m.in.Eq(x.t, y.t)
		}
	case *IfaceVal:
		y, ok := b.(*IfaceVal)
		if !ok {
			return m.in.Bool(false)
		}
		if x.t == nil || y.t == nil {
			return m.in.Bool(x.t == nil && y.t == nil)
		}
		return m.deepEq(x.v, y.v)
	case *MapVal:
		return m.in.Bool(a == b)
	}
	return m.in.Bool(false)
}

func (m *Machine) forceIfResolved(v Value) Value {
	switch x := v.(type) {
	case *SliceVal:
		if x.lazy != nil && x.lazy.resolved != nil {
			return x.lazy.resolved
		}
	case *LazyPtr:
		if x.resolved != nil {
			return *x.resolved
		}
	}
	return v
}
