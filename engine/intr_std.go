package main

import (
	"fmt"
	"go/types"
	"math"
	"math/big"
	"strings"

	"golang.org/x/tools/go/ssa"
)

func (m *Machine) strSlice(parts []*Term) Value {
	if len(parts) == 0 {
		return &SliceVal{isNil: true}
	}
	c := m.newCell(types.Typ[types.String], len(parts), "strs")
	for i, p := range parts {
		c.elems[i] = p
	}
	return &SliceVal{cell: c, len: len(parts), cap: len(parts)}
}

func (m *Machine) intToStr(a *Term) *Term {
	if a.IsConst() {
		return m.in.Str(a.iv.String())
	}
	return m.in.Ite(m.in.Lt(a, m.in.I64(0)), m.in.Concat(m.in.Str("-"), m.in.StrFromInt(m.in.Neg(a))), m.in.StrFromInt(a))
}

// formatValue renders a value for %v/%s/%d. Formatting never forks and never runs user code: scalars
// are rendered exactly, registered SDK errors by their description, everything else as an
// uninterpreted function of the value's leaves (deterministic in the value, opaque in content).
func (m *Machine) formatValue(v Value) *Term {
	switch x := v.(type) {
	case *Term:
		switch x.sort {
		case SString:
			return x
		case SInt:
			return m.intToStr(x)
		case SBool:
			return m.in.Ite(x, m.in.Str("true"), m.in.Str("false"))
		case SReal:
			if x.IsConst() {
				f, _ := x.rv.Float64()
				return m.in.Str(fmt.Sprint(f))
			}
			return m.in.UF("fmtreal", SString, x)
		}
	case *IfaceVal:
		if x.t == nil {
			return m.in.Str("<nil>")
		}
		if s := m.errorText(x); s != nil {
			return s
		}
		if t, ok := x.v.(*Term); ok {
			return m.formatValue(t)
		}
		return m.opaqueFmt(typeString(x.t), x.v)
	}
	return m.opaqueFmt("", v)
}

// errorText gives the message of the two error representations the engine creates itself.
func (m *Machine) errorText(x *IfaceVal) *Term {
	p, ok := x.v.(Pointer)
	if !ok || p.cell == nil {
		return nil
	}
	pt, ok := under(x.t).(*types.Pointer)
	if !ok {
		return nil
	}
	sv, ok := m.load(p).(*StructVal)
	if !ok {
		return nil
	}
	if isNamed(pt.Elem(), "cosmossdk.io/errors", "Error") {
		if t, ok := sv.f[2].(*Term); ok {
			return t
		}
	}
	if isNamed(pt.Elem(), "errors", "errorString") {
		if t, ok := sv.f[0].(*Term); ok {
			return t
		}
	}
	return nil
}

func (m *Machine) opaqueFmt(tag string, v Value) *Term {
	var leaves []*Term
	seen := map[int]bool{}
	var walk func(v Value, d int)
	walk = func(v Value, d int) {
		if d > 6 || len(leaves) >= 12 {
			return
		}
		switch x := v.(type) {
		case *Term:
			if !x.IsConst() && !seen[x.id] {
				seen[x.id] = true
				leaves = append(leaves, x)
			}
		case *StructVal:
			for _, f := range x.f {
				walk(f, d+1)
			}
		case *ArrayVal:
			for _, f := range x.e {
				walk(f, d+1)
			}
		case *SliceVal:
			if x.lazy != nil || x.isNil {
				return
			}
			for i := 0; i < x.len; i++ {
				walk(x.cell.elems[x.off+i], d+1)
			}
		case Pointer:
			if x.cell != nil {
				walk(getPath(x.cell.elems[x.idx], x.path), d+1)
			}
		case *BigVal:
			walk(x.t, d+1)
		case *BytesVal:
			for _, sg := range x.segs {
				if sg.t != nil {
					walk(sg.t, d+1)
				}
			}
		case *IfaceVal:
			if x.t != nil {
				walk(x.v, d+1)
			}
		}
	}
	walk(v, 0)
	name := "fmtv_" + cleanName(tag)
	for _, l := range leaves {
		name += "_" + l.sort.String()[:1]
	}
	return m.in.UF(name, SString, leaves...)
}

func (m *Machine) sprintf(format string, args []Value) *Term {
	var parts []*Term
	ai := 0
	lit := strings.Builder{}
	flush := func() {
		if lit.Len() > 0 {
			parts = append(parts, m.in.Str(lit.String()))
			lit.Reset()
		}
	}
	for i := 0; i < len(format); i++ {
		c := format[i]
		if c != '%' {
			lit.WriteByte(c)
			continue
		}
		i++
		if i >= len(format) {
			break
		}
		// skip flags/width
		for i < len(format) && strings.ContainsRune("+-# 0123456789.", rune(format[i])) {
			i++
		}
		if i >= len(format) {
			break
		}
		verb := format[i]
		if verb == '%' {
			lit.WriteByte('%')
			continue
		}
		flush()
		if ai >= len(args) {
			parts = append(parts, m.in.Str("%!"+string(verb)+"(MISSING)"))
			continue
		}
		a := args[ai]
		ai++
		switch verb {
		case 's', 'v', 'd', 'q':
			parts = append(parts, m.formatValue(a))
		default:
			m.nextSym++
			parts = append(parts, m.in.UF(fmt.Sprintf("fmtverb%d", m.nextSym), SString))
		}
	}
	flush()
	return m.in.Concat(parts...)
}

func (m *Machine) variadicArgs(v Value) []Value {
	sl := m.sliceOf(v)
	out := make([]Value, sl.len)
	for i := range out {
		out[i] = sl.cell.elems[sl.off+i]
	}
	return out
}

func (m *Machine) newError(msg *Term) Value {
	ep := m.eng.pkgs["errors"]
	et := ep.Type("errorString").Type()
	c := m.newCell(et, 1, "error")
	c.elems[0] = &StructVal{f: []Value{msg}}
	return &IfaceVal{t: types.NewPointer(et), v: Pointer{cell: c}}
}

// splitN models strings.Split for at most cfg separators.
func (m *Machine) split(s, sep *Term) Value {
	if s.IsConst() && sep.IsConst() {
		ps := strings.Split(s.sv, sep.sv)
		ts := make([]*Term, len(ps))
		for i, p := range ps {
			ts[i] = m.in.Str(p)
		}
		return m.strSlice(ts)
	}
	// a split already made on this path (or licensed by the CAIP-10 pattern axiom) is reused: same parts, no forks
	for _, sm := range m.splitMemo {
		if sm.s == s && sm.sep == sep && (sm.guard == nil || m.pcHolds(sm.guard)) {
			return m.strSlice(append([]*Term{}, sm.parts...))
		}
	}
	maxSep := m.eng.cfg.SliceBound
	if maxSep < 2 && sep.IsConst() && (sep.sv == ":" || sep.sv == "." || sep.sv == "|") {
		maxSep = 2 // CAIP-10 account ids and "type.pubkey.signature" proofs have two separators
	}

	var parts []*Term
	rest := s
	sl := m.in.StrLen(sep)
	oneChar := sep.IsConst() && len(sep.sv) == 1
	for k := 0; k <= maxSep; k++ {
		has := m.in.StrContains(rest, sep)
		if !m.branch(has) {
			parts = append(parts, rest)
			m.splitMemo = append(m.splitMemo, splitMemo{s: s, sep: sep, parts: parts})
			return m.strSlice(append([]*Term{}, parts...))
		}
		if oneChar {
			// first occurrence by word equation: rest = a ++ sep ++ r with sep not in a (exact for a 1-char separator)
			a, r := m.freshStr("split"), m.freshStr("split")
			m.addPC(m.in.Eq(rest, m.in.Concat(a, sep, r)))
			m.addPC(m.in.Not(m.in.StrContains(a, sep)))
			parts = append(parts, a)
			rest = r
			continue
		}
		i := m.in.StrIndexOf(rest, sep, m.in.I64(0))
		parts = append(parts, m.in.StrSubstr(rest, m.in.I64(0), i))
		rest = m.in.StrSubstr(rest, m.in.Add(i, sl), m.in.StrLen(rest))
	}
	m.abort("bound", "strings.Split with more than %d separators at %s", maxSep, m.repoSite())
	return nil
}

type splitMemo struct {
	s, sep *Term
	guard  *Term // the split holds when this condition is on the path (nil: unconditionally)
	parts  []*Term
}

// pcHolds: the condition is literally one of the path's conjuncts.
func (m *Machine) pcHolds(c *Term) bool {
	for _, x := range m.pc {
		if x == c {
			return true
		}
	}
	return false
}

func init() {
	reg("strings.Contains", func(m *Machine, fn *ssa.Function, a []Value) Value {
		return m.in.StrContains(a[0].(*Term), a[1].(*Term))
	})
	reg("strings.HasPrefix", func(m *Machine, fn *ssa.Function, a []Value) Value {
		return m.in.StrPrefixOf(a[1].(*Term), a[0].(*Term))
	})
	reg("strings.HasSuffix", func(m *Machine, fn *ssa.Function, a []Value) Value {
		return m.in.StrSuffixOf(a[1].(*Term), a[0].(*Term))
	})
	reg("strings.Index", func(m *Machine, fn *ssa.Function, a []Value) Value {
		return m.in.StrIndexOf(a[0].(*Term), a[1].(*Term), m.in.I64(0))
	})
	reg("strings.Split", func(m *Machine, fn *ssa.Function, a []Value) Value {
		return m.split(a[0].(*Term), a[1].(*Term))
	})
	reg("strings.Count", func(m *Machine, fn *ssa.Function, a []Value) Value {
		s, sep := a[0].(*Term), a[1].(*Term)
		if s.IsConst() && sep.IsConst() {
			return m.in.I64(int64(strings.Count(s.sv, sep.sv)))
		}
		// a concatenation is counted piecewise: constants exactly, bech32 addresses contain no punctuation
		if sep.IsConst() && len(sep.sv) == 1 && !strings.ContainsAny(sep.sv, "qpzry9x8gf2tvdw0s3jn54khce6mua7l1") {
			total := m.in.I64(0)
			for _, p := range m.in.concatParts(s) {
				switch {
				case p.IsConst():
					total = m.in.Add(total, m.in.I64(int64(strings.Count(p.sv, sep.sv))))
				case m.pcHolds(m.in.UF("validbech32_acc", SBool, p)) || m.pcHolds(m.in.UF("validbech32_val", SBool, p)):
				default:
					sl := m.sliceOf(m.split(p, sep))
					total = m.in.Add(total, m.in.I64(int64(sl.len-1)))
				}
			}
			return total
		}
		sl := m.sliceOf(m.split(s, sep))
		return m.in.I64(int64(sl.len - 1))
	})
	reg("strings.Join", func(m *Machine, fn *ssa.Function, a []Value) Value {
		sl := m.sliceOf(a[0])
		sep := a[1].(*Term)
		var parts []*Term
		for i := 0; i < sl.len; i++ {
			if i > 0 {
				parts = append(parts, sep)
			}
			parts = append(parts, sl.cell.elems[sl.off+i].(*Term))
		}
		return m.in.Concat(parts...)
	})
	reg("strings.ReplaceAll", func(m *Machine, fn *ssa.Function, a []Value) Value {
		return m.in.StrReplaceAll(a[0].(*Term), a[1].(*Term), a[2].(*Term))
	})
	reg("strings.ToLower", func(m *Machine, fn *ssa.Function, a []Value) Value {
		s := a[0].(*Term)
		if s.IsConst() {
			return m.in.Str(strings.ToLower(s.sv))
		}
		return m.in.UF("tolower", SString, s)
	})
	reg("strings.TrimSpace", func(m *Machine, fn *ssa.Function, a []Value) Value {
		s := a[0].(*Term)
		if s.IsConst() {
			return m.in.Str(strings.TrimSpace(s.sv))
		}
		return m.in.UF("trimspace", SString, s)
	})
	reg("strings.EqualFold", func(m *Machine, fn *ssa.Function, a []Value) Value {
		return m.in.Eq(m.in.UF("tolower", SString, a[0].(*Term)), m.in.UF("tolower", SString, a[1].(*Term)))
	})

	reg("fmt.Sprintf", func(m *Machine, fn *ssa.Function, a []Value) Value {
		f := a[0].(*Term)
		if !f.IsConst() {
			m.nextSym++
			return m.in.UF(fmt.Sprintf("fmtdyn%d", m.nextSym), SString)
		}
		return m.sprintf(f.sv, m.variadicArgs(a[1]))
	})
	reg("fmt.Sprint", func(m *Machine, fn *ssa.Function, a []Value) Value {
		var parts []*Term
		for _, v := range m.variadicArgs(a[0]) {
			parts = append(parts, m.formatValue(v))
		}
		return m.in.Concat(parts...)
	})
	reg("fmt.Errorf", func(m *Machine, fn *ssa.Function, a []Value) Value {
		f := a[0].(*Term)
		var msg *Term
		if f.IsConst() {
			msg = m.sprintf(f.sv, m.variadicArgs(a[1]))
		} else {
			m.nextSym++
			msg = m.in.UF(fmt.Sprintf("fmtdyn%d", m.nextSym), SString)
		}
		return m.newError(msg)
	})
	nop := func(m *Machine, fn *ssa.Function, a []Value) Value { return m.zeroResults(fn) }
	reg("fmt.Println", nop)
	reg("fmt.Printf", nop)
	reg("fmt.Print", nop)

	reg("strconv.Itoa", func(m *Machine, fn *ssa.Function, a []Value) Value { return m.intToStr(a[0].(*Term)) })
	reg("strconv.FormatUint", func(m *Machine, fn *ssa.Function, a []Value) Value { return m.intToStr(a[0].(*Term)) })
	reg("strconv.FormatInt", func(m *Machine, fn *ssa.Function, a []Value) Value { return m.intToStr(a[0].(*Term)) })
	reg("strconv.ParseInt", func(m *Machine, fn *ssa.Function, a []Value) Value {
		s := a[0].(*Term)
		n := m.in.mk("str.to_int", SInt, []*Term{s}, "", nil)
		_, hi := intRange(intInfo{64, true})
		ok := m.in.And(m.in.Ge(n, m.in.I64(0)), m.in.Le(n, m.in.Int(hi)))
		if m.branch(ok) {
			return TupleVal{n, nilIface}
		}
		// negative or invalid
		neg := m.in.StrPrefixOf(m.in.Str("-"), s)
		if m.branch(neg) {
			rest := m.in.StrSubstr(s, m.in.I64(1), m.in.StrLen(s))
			n2 := m.in.mk("str.to_int", SInt, []*Term{rest}, "", nil)
			ok2 := m.in.And(m.in.Ge(n2, m.in.I64(0)), m.in.Le(n2, m.in.Add(m.in.Int(hi), m.in.I64(1))))
			if m.branch(ok2) {
				return TupleVal{m.in.Neg(n2), nilIface}
			}
		}
		return TupleVal{m.in.I64(0), m.newError(m.in.Str("strconv.ParseInt: invalid syntax"))}
	})

	// grpc status errors: opaque non-nil errors
	reg("google.golang.org/grpc/status.Errorf", func(m *Machine, fn *ssa.Function, a []Value) Value {
		f := a[1].(*Term)
		if f.IsConst() {
			return m.newError(m.sprintf(f.sv, m.variadicArgs(a[2])))
		}
		return m.newError(m.in.Str("status error"))
	})
	reg("google.golang.org/grpc/status.Error", func(m *Machine, fn *ssa.Function, a []Value) Value {
		return m.newError(a[1].(*Term))
	})
	reg("errors.Is", func(m *Machine, fn *ssa.Function, a []Value) Value {
		x, y := a[0].(*IfaceVal), a[1].(*IfaceVal)
		return m.equal(x, y, nil)
	})
	reg("errors.New", func(m *Machine, fn *ssa.Function, a []Value) Value {
		return m.newError(a[0].(*Term))
	})

	// encoding/binary
	reg("(encoding/binary.bigEndian).PutUint64", func(m *Machine, fn *ssa.Function, a []Value) Value {
		sl := m.sliceOf(a[1])
		if sl.len < 8 {
			m.goPanicf("index-out-of-range", "PutUint64 on short slice")
		}
		x := a[2].(*Term)
		for i := 0; i < 8; i++ {
			sl.cell.elems[sl.off+i] = m.be64Byte(x, i)
		}
		return nil
	})
	reg("(encoding/binary.bigEndian).Uint64", func(m *Machine, fn *ssa.Function, a []Value) Value {
		b := m.toBytes(a[1])
		if len(b.segs) == 1 && b.segs[0].k == SegTok && b.segs[0].tok.entry != nil {
			raw := m.rawView(b.segs[0].tok.entry, 8)
			b = raw
		}
		if len(b.segs) == 1 && b.segs[0].k == SegBE64 {
			return b.segs[0].t
		}
		sl := m.bytesToCells(b)
		if sl.len < 8 {
			m.goPanicf("index-out-of-range", "Uint64 on short slice")
		}
		r := m.in.I64(0)
		for i := 0; i < 8; i++ {
			r = m.in.Add(m.in.Mul(r, m.in.I64(256)), sl.cell.elems[sl.off+i].(*Term))
		}
		return r
	})

	// time
	reg("time.Now", func(m *Machine, fn *ssa.Function, a []Value) Value {
		m.w.clockN++
		v := m.freshInt(fmt.Sprintf("env.clock%d", m.w.clockN), intInfo{64, true})
		m.w.envSyms = append(m.w.envSyms, v)
		m.w.envLog = append(m.w.envLog, "time.Now@"+m.repoSite())
		return m.mkTime(v)
	})
	reg("(time.Time).Unix", func(m *Machine, fn *ssa.Function, a []Value) Value {
		return a[0].(*StructVal).f[1]
	})
	reg("(time.Time).UTC", func(m *Machine, fn *ssa.Function, a []Value) Value { return a[0] })
	reg("(time.Time).IsZero", func(m *Machine, fn *ssa.Function, a []Value) Value {
		return m.in.Eq(a[0].(*StructVal).f[1].(*Term), m.in.I64(0))
	})
	reg("time.Since", func(m *Machine, fn *ssa.Function, a []Value) Value { return m.in.I64(0) })
	reg("github.com/cosmos/cosmos-sdk/telemetry.ModuleMeasureSince", nop)
	reg("github.com/cosmos/cosmos-sdk/telemetry.MeasureSince", nop)

	// math (floats as reals; concrete arguments evaluated natively)
	f1 := func(name string, f func(float64) float64) {
		reg("math."+name, func(m *Machine, fn *ssa.Function, a []Value) Value {
			x := a[0].(*Term)
			if x.IsConst() {
				fv, _ := x.rv.Float64()
				r := f(fv)
				if math.IsNaN(r) || math.IsInf(r, 0) {
					return m.in.UF("math"+name+"_special", SReal, x)
				}
				return m.in.Real(new(big.Rat).SetFloat64(r))
			}
			return m.in.UF("math_"+name, SReal, x)
		})
	}
	f1("Log10", math.Log10)
	f1("Log2", math.Log2)
	f1("Ceil", math.Ceil)
	f1("Floor", math.Floor)
	reg("math.Pow10", func(m *Machine, fn *ssa.Function, a []Value) Value {
		x := a[0].(*Term)
		if x.IsConst() {
			return m.in.Real(new(big.Rat).SetFloat64(math.Pow10(int(x.iv.Int64()))))
		}
		return m.in.UF("math_Pow10", SReal, x)
	})
	reg("math.Float32bits", func(m *Machine, fn *ssa.Function, a []Value) Value {
		x := a[0].(*Term)
		if x.IsConst() {
			f, _ := x.rv.Float32()
			return m.in.I64(int64(math.Float32bits(f)))
		}
		v := m.in.UF("f32bits", SInt, x)
		m.addPC(m.in.And(m.in.Le(m.in.I64(0), v), m.in.Lt(v, m.in.I64(1<<32))))
		return v
	})
	reg("math.Float32frombits", func(m *Machine, fn *ssa.Function, a []Value) Value {
		x := a[0].(*Term)
		if x.IsConst() {
			f := math.Float32frombits(uint32(x.iv.Uint64()))
			return m.in.Real(new(big.Rat).SetFloat64(float64(f)))
		}
		return m.in.UF("f32frombits", SReal, x)
	})

	// sort.Strings on concrete-length symbolic strings: leave order unchanged but record that it was requested
	// (only used by non-consensus helpers); real sort is executed from SSA otherwise.
}

func init() {
	// bytes.Buffer as used by model.Version: NewBufferString / WriteByte / WriteString / String
	reg("bytes.NewBufferString", func(m *Machine, fn *ssa.Function, a []Value) Value {
		bt := fn.Signature.Results().At(0).Type().(*types.Pointer).Elem()
		c := m.newCell(bt, 1, "bytes.Buffer")
		c.elems[0] = &Handle{kind: "strbuf", obj: a[0].(*Term)}
		return Pointer{cell: c}
	})
	buf := func(m *Machine, v Value) *Cell {
		p := m.force(v).(Pointer)
		if p.cell == nil {
			m.goPanicf("nil-deref", "nil *bytes.Buffer")
		}
		if _, ok := p.cell.elems[p.idx].(*Handle); !ok {
			p.cell.elems[p.idx] = &Handle{kind: "strbuf", obj: m.in.Str("")}
		}
		return p.cell
	}
	reg("(*bytes.Buffer).WriteString", func(m *Machine, fn *ssa.Function, a []Value) Value {
		c := buf(m, a[0])
		h := c.elems[0].(*Handle)
		c.elems[0] = &Handle{kind: "strbuf", obj: m.in.Concat(h.obj.(*Term), a[1].(*Term))}
		return TupleVal{m.in.StrLen(a[1].(*Term)), nilIface}
	})
	reg("(*bytes.Buffer).WriteByte", func(m *Machine, fn *ssa.Function, a []Value) Value {
		c := buf(m, a[0])
		h := c.elems[0].(*Handle)
		c.elems[0] = &Handle{kind: "strbuf", obj: m.in.Concat(h.obj.(*Term), m.in.StrFromCode(a[1].(*Term)))}
		return nilIface
	})
	reg("(*bytes.Buffer).String", func(m *Machine, fn *ssa.Function, a []Value) Value {
		c := buf(m, a[0])
		return c.elems[0].(*Handle).obj.(*Term)
	})
}
