package main

import (
	"fmt"
	"os"
	"go/types"
	"strings"

	"golang.org/x/tools/go/ssa"
)

type intrinsicFn func(m *Machine, fn *ssa.Function, args []Value) Value

var intrinsics = map[string]intrinsicFn{}

func reg(name string, f intrinsicFn) {
	if _, dup := intrinsics[name]; dup {
		panic("duplicate intrinsic " + name)
	}
	intrinsics[name] = f
}

const symPkg = harnessPath + "/sym."

func (m *Machine) constStr(v Value, what string) string {
	t, ok := v.(*Term)
	if !ok || !t.IsConst() || t.sort != SString {
		m.unsupported("%s must be a constant string", what)
	}
	return t.sv
}

func (m *Machine) nondet(name string, t types.Type) Value {
	v := m.materialize(t, "nd."+name)
	m.nondets = append(m.nondets, NondetRec{Name: name, Val: v, Typ: t})
	return v
}

func init() {
	basic := func(k types.BasicKind) intrinsicFn {
		return func(m *Machine, fn *ssa.Function, args []Value) Value {
			return m.nondet(m.constStr(args[0], "nondet name"), types.Typ[k])
		}
	}
	reg(symPkg+"Bool", basic(types.Bool))
	reg(symPkg+"Int64", basic(types.Int64))
	reg(symPkg+"Uint64", basic(types.Uint64))
	reg(symPkg+"Uint32", basic(types.Uint32))
	reg(symPkg+"Int32", basic(types.Int32))
	reg(symPkg+"Uint8", basic(types.Uint8))
	reg(symPkg+"Int", basic(types.Int))
	reg(symPkg+"String", basic(types.String))
	reg(symPkg+"Float32", basic(types.Float32))
	// Opaque*(v): a fresh variable constrained to v - concrete inputs for the symbolic encodings (self-tests)
	opaque := func(kind types.BasicKind) intrinsicFn {
		return func(m *Machine, fn *ssa.Function, args []Value) Value {
			v := args[0].(*Term)
			x := m.materialize(types.Typ[kind], "opaque").(*Term)
			m.addPC(m.in.Eq(x, v))
			return x
		}
	}
	reg(symPkg+"OpaqueString", opaque(types.String))
	reg(symPkg+"OpaqueInt64", opaque(types.Int64))
	reg(symPkg+"OpaqueUint64", opaque(types.Uint64))

	// Fill(name, ptr): *ptr = fresh symbolic value of its type
	reg(symPkg+"Fill", func(m *Machine, fn *ssa.Function, args []Value) Value {
		name := m.constStr(args[0], "Fill name")
		iv := args[1].(*IfaceVal)
		pt, ok := under(iv.t).(*types.Pointer)
		if !ok {
			m.unsupported("Fill needs a pointer")
		}
		v := m.nondet(name, pt.Elem())
		m.store(m.force(iv.v).(Pointer), v)
		return nil
	})
	// BigInt(name) *big.Int : fresh mathematical integer
	reg(symPkg+"BigInt", func(m *Machine, fn *ssa.Function, args []Value) Value {
		name := m.constStr(args[0], "BigInt name")
		c := m.newCell(m.eng.bigIntType, 1, name)
		v := &BigVal{t: m.freshBig("nd." + name)}
		c.elems[0] = v
		m.nondets = append(m.nondets, NondetRec{Name: name, Val: v, Typ: m.eng.bigIntType})
		return Pointer{cell: c}
	})
	reg(symPkg+"Assume", func(m *Machine, fn *ssa.Function, args []Value) Value {
		c := args[0].(*Term)
		if c.IsConst() {
			if !c.bv {
				m.abort("assume", "assumption false")
			}
			return nil
		}
		if !m.replaying() {
			r := m.feasible(c)
			if r == Unsat {
				m.abort("assume", "assumption infeasible")
			}
			if r == Unknown {
				m.res.Incon = append(m.res.Incon, "unknown-assume@"+m.site())
			}
		}
		m.addPC(c)
		return nil
	})
	reg(symPkg+"Assert", func(m *Machine, fn *ssa.Function, args []Value) Value {
		m.assert(m.constStr(args[0], "label"), args[1].(*Term), nil)
		return nil
	})
	// AssertKF(label, cond, classes ...KFClass)
	reg(symPkg+"AssertKF", func(m *Machine, fn *ssa.Function, args []Value) Value {
		var classes []kfClass
		sl := m.sliceOf(args[2])
		for i := 0; i < sl.len; i++ {
			sv := sl.cell.elems[sl.off+i].(*StructVal)
			classes = append(classes, kfClass{id: m.constStr(sv.f[0], "KF id"), cond: sv.f[1].(*Term)})
		}
		m.assert(m.constStr(args[0], "label"), args[1].(*Term), classes)
		return nil
	})
	reg(symPkg+"Cover", func(m *Machine, fn *ssa.Function, args []Value) Value {
		m.res.Covers = append(m.res.Covers, m.constStr(args[0], "cover label"))
		return nil
	})
	// ConcreteInt(x, lo, hi): case split so that x is a concrete value on every path
	reg(symPkg+"ConcreteInt", func(m *Machine, fn *ssa.Function, args []Value) Value {
		lo, hi := int(args[1].(*Term).iv.Int64()), int(args[2].(*Term).iv.Int64())
		return m.in.I64(int64(m.concretize(args[0].(*Term), lo, hi, "ConcreteInt")))
	})
	// Trace(label, v): debugging aid, records the rendered value as a cover point
	reg(symPkg+"Trace", func(m *Machine, fn *ssa.Function, args []Value) Value {
		t := m.formatValue(args[1])
		txt := m.in.Show(t)
		if len(txt) > 160 {
			txt = txt[:160]
		}
		m.res.Covers = append(m.res.Covers, "trace:"+m.constStr(args[0], "label")+":"+txt)
		return nil
	})
	reg(symPkg+"Symbolic", func(m *Machine, fn *ssa.Function, args []Value) Value {
		return m.in.Bool(true)
	})
	// Ite(c, a, b int64) and friends keep predicates fork-free
	reg(symPkg+"And", func(m *Machine, fn *ssa.Function, args []Value) Value {
		sl := m.sliceOf(args[0])
		r := m.in.Bool(true)
		for i := 0; i < sl.len; i++ {
			r = m.in.And(r, sl.cell.elems[sl.off+i].(*Term))
		}
		return r
	})
	reg(symPkg+"Or", func(m *Machine, fn *ssa.Function, args []Value) Value {
		sl := m.sliceOf(args[0])
		r := m.in.Bool(false)
		for i := 0; i < sl.len; i++ {
			r = m.in.Or(r, sl.cell.elems[sl.off+i].(*Term))
		}
		return r
	})
	reg(symPkg+"Implies", func(m *Machine, fn *ssa.Function, args []Value) Value {
		return m.in.Implies(args[0].(*Term), args[1].(*Term))
	})
	reg(symPkg+"StrEq", func(m *Machine, fn *ssa.Function, args []Value) Value {
		return m.in.Eq(args[0].(*Term), args[1].(*Term))
	})
	reg(symPkg+"StrContains", func(m *Machine, fn *ssa.Function, args []Value) Value {
		return m.in.StrContains(args[0].(*Term), args[1].(*Term))
	})
	reg(symPkg+"IteInt64", func(m *Machine, fn *ssa.Function, args []Value) Value {
		return m.in.Ite(args[0].(*Term), args[1].(*Term), args[2].(*Term))
	})

	// ---- store access for harnesses
	reg(symPkg+"Snapshot", func(m *Machine, fn *ssa.Function, args []Value) Value {
		// encode all store log positions into one snapshot id
		snap := &snapshot{pos: map[string]int{}}
		for name, st := range m.w.stores {
			snap.pos[name] = len(st.log)
		}
		m.snaps = append(m.snaps, snap)
		return m.in.I64(int64(len(m.snaps) - 1))
	})
	// Rollback(snap): discard every store write since the snapshot (second run of a two-run obligation)
	reg(symPkg+"Rollback", func(m *Machine, fn *ssa.Function, args []Value) Value {
		id := int(args[0].(*Term).iv.Int64())
		snap := m.snaps[id]
		for name, st := range m.w.stores {
			n := snapLen(snap, name)
			st.log = st.log[:n:n]
		}
		return nil
	})
	// At(snap, func()) runs f against the older state (reads only)
	reg(symPkg+"At", func(m *Machine, fn *ssa.Function, args []Value) Value {
		id := int(args[0].(*Term).iv.Int64())
		f := args[1].(*FuncVal)
		saved := map[string][]LogEntry{}
		snap := m.snaps[id]
		for name, st := range m.w.stores {
			saved[name] = st.log
			n, ok := snap.pos[name]
			if !ok {
				n = 0
			}
			st.log = st.log[:n:n]
		}
		defer func() {
			for name, st := range m.w.stores {
				if lg, ok := saved[name]; ok {
					if len(st.log) != snapLen(snap, name) {
						m.unsupported("store written inside sym.At")
					}
					st.log = lg
				}
			}
		}()
		m.callFunction(f.fn, nil, f.caps, "sym.At")
		return nil
	})
	// WrittenUint64(snap, store, prefix) []uint64 : de-duplicated ids written under a BE64-keyed prefix
	reg(symPkg+"WrittenUint64", func(m *Machine, fn *ssa.Function, args []Value) Value {
		id := int(args[0].(*Term).iv.Int64())
		store := m.constStr(args[1], "store")
		prefix := m.constStr(args[2], "prefix")
		keys := m.writtenKeys(store, prefix, snapLen(m.snaps[id], store))
		c := m.newCell(types.Typ[types.Uint64], len(keys), "written")
		for i, k := range keys {
			rest := stripPrefix(k, prefix)
			// keys of the form <8-byte id>"/" (height-indexed schedules)
			if n := len(rest.segs); n == 2 && rest.segs[1].k == SegLit && rest.segs[1].lit == "/" {
				rest = &BytesVal{segs: rest.segs[:1]}
			} else if n == 1 && rest.segs[0].k == SegLit && len(rest.segs[0].lit) == 9 && rest.segs[0].lit[8] == '/' {
				rest = &BytesVal{segs: []Seg{{k: SegLit, lit: rest.segs[0].lit[:8]}}}
			}
			if len(rest.segs) != 1 || rest.segs[0].k != SegBE64 {
				if len(rest.segs) == 1 && rest.segs[0].k == SegLit && len(rest.segs[0].lit) == 8 {
					v := uint64(0)
					for j := 0; j < 8; j++ {
						v = v<<8 | uint64(rest.segs[0].lit[j])
					}
					c.elems[i] = m.in.Int(newBigU(v))
					continue
				}
				m.unsupported("WrittenUint64: key under %q is not an 8-byte id", prefix)
			}
			c.elems[i] = rest.segs[0].t
		}
		if len(keys) == 0 {
			return &SliceVal{isNil: true}
		}
		return &SliceVal{cell: c, len: len(keys), cap: len(keys)}
	})
	// WrittenString(snap, store, prefix, suffix) []string : ids written under prefix+<s>+suffix
	reg(symPkg+"WrittenString", func(m *Machine, fn *ssa.Function, args []Value) Value {
		id := int(args[0].(*Term).iv.Int64())
		store := m.constStr(args[1], "store")
		prefix := m.constStr(args[2], "prefix")
		suffix := m.constStr(args[3], "suffix")
		keys := m.writtenKeys(store, prefix, snapLen(m.snaps[id], store))
		c := m.newCell(types.Typ[types.String], len(keys), "written")
		for i, k := range keys {
			rest := stripPrefix(k, prefix)
			if n := len(rest.segs); suffix != "" && n > 0 && rest.segs[n-1].k == SegLit && strings.HasSuffix(rest.segs[n-1].lit, suffix) {
				segs := append([]Seg{}, rest.segs...)
				segs[n-1].lit = strings.TrimSuffix(segs[n-1].lit, suffix)
				c.elems[i] = m.bytesToStr(&BytesVal{segs: normSegs(segs)})
				continue
			}
			s := m.bytesToStr(rest)
			if suffix != "" {
				ln := m.in.Sub(m.in.StrLen(s), m.in.I64(int64(len(suffix))))
				s = m.in.StrSubstr(s, m.in.I64(0), ln)
			}
			c.elems[i] = s
		}
		if len(keys) == 0 {
			return &SliceVal{isNil: true}
		}
		return &SliceVal{cell: c, len: len(keys), cap: len(keys)}
	})
	// WrittenAny(snap, store) bool : anything written to the store since snap
	reg(symPkg+"WrittenAny", func(m *Machine, fn *ssa.Function, args []Value) Value {
		id := int(args[0].(*Term).iv.Int64())
		store := m.constStr(args[1], "store")
		return m.in.Bool(len(m.w.store(store).log) > snapLen(m.snaps[id], store))
	})
	// WrittenOutside(snap, store, allowedPrefixes...) bool
	reg(symPkg+"WrittenOutside", func(m *Machine, fn *ssa.Function, args []Value) Value {
		id := int(args[0].(*Term).iv.Int64())
		store := m.constStr(args[1], "store")
		sl := m.sliceOf(args[2])
		st := m.w.store(store)
		for i := snapLen(m.snaps[id], store); i < len(st.log); i++ {
			ok := false
			for j := 0; j < sl.len; j++ {
				p := m.constStr(sl.cell.elems[sl.off+j], "prefix")
				yes, known := hasLitPrefix(st.log[i].key, p)
				if known && yes {
					ok = true
				}
			}
			if !ok {
				return m.in.Bool(true)
			}
		}
		return m.in.Bool(false)
	})
	// DeclareKeyed(store, prefix, proto *T, keyFn func(T) []byte)
	reg(symPkg+"DeclareKeyed", func(m *Machine, fn *ssa.Function, args []Value) Value {
		iv := args[2].(*IfaceVal)
		pt := under(iv.t).(*types.Pointer)
		kf := args[3].(*IfaceVal).v.(*FuncVal)
		m.w.schemas = append(m.w.schemas, &Schema{store: m.constStr(args[0], "store"), prefix: m.constStr(args[1], "prefix"), typ: pt.Elem(), keyFn: kf})
		return nil
	})
	reg(symPkg+"DeclareInv", func(m *Machine, fn *ssa.Function, args []Value) Value {
		iv := args[0].(*IfaceVal)
		pt := under(iv.t).(*types.Pointer)
		m.w.invs = append(m.w.invs, &TypeInv{typ: pt.Elem(), pred: args[1].(*IfaceVal).v.(*FuncVal)})
		return nil
	})
	reg(symPkg+"CheckInvOnWrite", func(m *Machine, fn *ssa.Function, args []Value) Value {
		m.w.checkInv = args[0].(*Term).bv
		return nil
	})
	// ExactMul(on): use exact nonlinear multiplication instead of the axiomatised uninterpreted product
	reg(symPkg+"ExactMul", func(m *Machine, fn *ssa.Function, args []Value) Value {
		m.in.nlUF = !args[0].(*Term).bv && !m.forceExact
		return nil
	})
	reg(symPkg+"FixField", func(m *Machine, fn *ssa.Function, args []Value) Value {
		m.w.fixStr[m.constStr(args[0], "field")] = args[1].(*Term)
		return nil
	})
	reg(symPkg+"SetBound", func(m *Machine, fn *ssa.Function, args []Value) Value {
		m.w.bounds[m.constStr(args[0], "suffix")] = int(args[1].(*Term).iv.Int64())
		return nil
	})
	reg(symPkg+"DeclareEmptyStore", func(m *Machine, fn *ssa.Function, args []Value) Value {
		m.w.store(m.constStr(args[0], "store")).empty = true
		return nil
	})
	reg(symPkg+"DeclareRaw", func(m *Machine, fn *ssa.Function, args []Value) Value {
		n := int(args[2].(*Term).iv.Int64())
		m.w.schemas = append(m.w.schemas, &Schema{store: m.constStr(args[0], "store"), prefix: m.constStr(args[1], "prefix"), rawLen: n})
		return nil
	})
	reg(symPkg+"SetEnumBound", func(m *Machine, fn *ssa.Function, args []Value) Value {
		store, prefix := m.constStr(args[0], "store"), m.constStr(args[1], "prefix")
		n := int(args[2].(*Term).iv.Int64())
		for _, sc := range m.w.schemas {
			if sc.store == store && sc.prefix == prefix {
				sc.bound, sc.boundSet = n, true
				return nil
			}
		}
		m.w.schemas = append(m.w.schemas, &Schema{store: store, prefix: prefix, bound: n, boundSet: true})
		return nil
	})
	// Time(unix) time.Time
	reg(symPkg+"Time", func(m *Machine, fn *ssa.Function, args []Value) Value {
		return m.mkTime(args[0].(*Term))
	})
	// EnvInt64(name): environment (non-consensus) value: wall clock etc.
	reg(symPkg+"EnvInt64", func(m *Machine, fn *ssa.Function, args []Value) Value {
		v := m.freshInt("env."+m.constStr(args[0], "env name"), intInfo{64, true})
		m.w.envSyms = append(m.w.envSyms, v)
		return v
	})
	// Tier() string
	reg(symPkg+"Tier", func(m *Machine, fn *ssa.Function, args []Value) Value {
		return m.in.Str(m.eng.cfg.Tier)
	})
	// Catch(f) (panicked bool, kind string): runs f and reports whether it panicked (baseapp runTx shape)
	reg(symPkg+"Catch", func(m *Machine, fn *ssa.Function, args []Value) (ret Value) {
		f := args[0].(*FuncVal)
		fr := m.frame
		depth := m.depth
		defer func() {
			if r := recover(); r != nil {
				gp, ok := r.(*goPanic)
				if !ok {
					panic(r)
				}
				m.frame = fr
				m.depth = depth
				ret = TupleVal{m.in.Bool(true), m.in.Str(gp.kind + "@" + gp.site)}
			}
		}()
		m.callFunction(f.fn, nil, f.caps, "sym.Catch")
		return TupleVal{m.in.Bool(false), m.in.Str("")}
	})
	// UnwindCheck(on): loops exceeding the bound inside are reported as violations (termination obligations)
	reg(symPkg+"Note", func(m *Machine, fn *ssa.Function, args []Value) Value {
		return nil
	})
	// HavocGlobal(pkgPath, name): give a package-level variable an arbitrary value
	reg(symPkg+"HavocGlobal", func(m *Machine, fn *ssa.Function, args []Value) Value {
		pkg, name := m.constStr(args[0], "pkg"), m.constStr(args[1], "name")
		p := m.eng.pkgs[pkg]
		if p == nil {
			m.unsupported("HavocGlobal: no package %s", pkg)
		}
		g, ok := p.Members[name].(*ssa.Global)
		if !ok {
			m.unsupported("HavocGlobal: no global %s.%s", pkg, name)
		}
		c := m.globalCell(g)
		hint := m.constStr(args[2], "hint")
		v := m.materialize(c.typ, "global."+name+"."+hint)
		c.elems[0] = v
		m.nondets = append(m.nondets, NondetRec{Name: "global." + name + "." + hint, Val: v, Typ: c.typ})
		return nil
	})
	// GlobalDecEq(pkg, name, dec) bool — compare a Dec global with a value
	reg(symPkg+"GlobalBig", func(m *Machine, fn *ssa.Function, args []Value) Value {
		pkg, name := m.constStr(args[0], "pkg"), m.constStr(args[1], "name")
		g := m.eng.pkgs[pkg].Members[name].(*ssa.Global)
		c := m.globalCell(g)
		sv := c.elems[0].(*StructVal)
		p := m.force(sv.f[0]).(Pointer)
		if p.cell == nil {
			nc := m.newCell(m.eng.bigIntType, 1, "nilbig")
			nc.elems[0] = &BigVal{t: m.in.I64(0)}
			return TupleVal{Pointer{cell: nc}, m.in.Bool(true)}
		}
		nc := m.newCell(m.eng.bigIntType, 1, "copybig")
		nc.elems[0] = &BigVal{t: p.cell.elems[p.idx].(*BigVal).t}
		return TupleVal{Pointer{cell: nc}, m.in.Bool(false)}
	})
}

type snapshot struct{ pos map[string]int }

func snapLen(s *snapshot, store string) int {
	if n, ok := s.pos[store]; ok {
		return n
	}
	return 0
}

type kfClass struct {
	id   string
	cond *Term
}

// assert checks pc ∧ ¬c; classes are known-finding predicates.
func (m *Machine) assert(label string, c *Term, classes []kfClass) {
	if m.replaying() {
		m.addPC(c) // decided by the ancestor path
		return
	}
	m.res.Covers = append(m.res.Covers, "assert:"+label)
	if c.IsConst() && c.bv {
		return
	}
	nc := m.in.Not(c)
	// (a) outside every *known* class
	outside := []*Term{nc}
	var known []kfClass
	for _, k := range classes {
		if m.eng.kfKnown(k.id) {
			known = append(known, k)
			outside = append(outside, m.in.Not(k.cond))
		}
	}
	m.checkViolation(label, "assert", outside, nil, true)
	for _, k := range known {
		m.checkViolation(label, "assert", []*Term{nc, k.cond}, []string{k.id}, false)
	}
	// continue under the assumption that the assertion holds (CBMC style)
	if c.IsConst() && !c.bv {
		m.abort("assert-stop", "assertion %s is false on this path", label)
	}
	if m.feasible(c) == Unsat {
		m.abort("assert-stop", "assertion %s fails on the whole path", label)
	}
	m.addPC(c)
}

func (m *Machine) checkViolation(label, kind string, extra []*Term, kfs []string, outside bool) {
	want := m.caseTerms()
	r, model := m.sol.CheckInc(m.pc, extra, want)
	if r == Sat && len(m.realise) > 0 {
		// prefer a model that also satisfies the replay-only constraints (character classes of pattern matches)
		if r2, model2 := m.sol.CheckInc(m.pc, append(append([]*Term{}, extra...), m.realise...), want); r2 == Sat {
			model = model2
		}
	}
	switch r {
	case Unsat:
		return
	case Unknown:
		m.res.Incon = append(m.res.Incon, "unknown-assert:"+label)
		return
	}
	v := &Violation{Label: label, Kind: kind, Site: m.repoSite(), Model: model, Trace: append([]int{}, m.trace...), KFs: kfs, Outside: outside, usedNL: m.usesNL(extra...)}
	if os.Getenv("GOSYM_DEBUG") != "" {
		for _, c := range m.pc {
			fmt.Fprintf(os.Stderr, "  PC %s\n", m.in.Show(c))
		}
		for _, c := range extra {
			fmt.Fprintf(os.Stderr, "  EXTRA %s\n", m.in.Show(c))
		}
	}
	v.Case = m.buildCase(label, model)
	m.res.Violations = append(m.res.Violations, v)
}

// onUncaughtPanic: a panic that escapes the harness entry is a violation of kind "panic"
// (harnesses that tolerate panics wrap the call in sym.Catch).
func (m *Machine) onUncaughtPanic(x *goPanic) {
	label := "no-panic"
	site := x.site
	classes := m.eng.kfPanicClasses(site, x.kind)
	want := m.caseTerms()
	r, model := m.sol.CheckInc(m.pc, nil, want)
	if r != Sat {
		if r == Unknown {
			m.res.Incon = append(m.res.Incon, "unknown-panic-path@"+site)
		}
		return
	}
	v := &Violation{usedNL: m.usesNL(), Label: label, Kind: "panic", Site: site, Model: model, Trace: append([]int{}, m.trace...), Detail: x.kind + ": " + m.panicText(x), KFs: classes, Outside: len(classes) == 0}
	v.Case = m.buildCase(label, model)
	m.res.Violations = append(m.res.Violations, v)
}

// onUnwind: a loop ran past the unwinding bound on a feasible path (unwinding-assertion failure).
// It is reported as a candidate non-termination; native replay under a watchdog confirms or refutes it.
func (m *Machine) onUnwind(fr *Frame) {
	site := m.repoSite()
	classes := m.eng.kfPanicClasses(site, "unwind")
	want := m.caseTerms()
	r, model := m.sol.CheckInc(m.pc, nil, want)
	if r != Sat {
		return
	}
	v := &Violation{usedNL: m.usesNL(), Label: "terminates", Kind: "unwind", Site: site, Model: model, Trace: append([]int{}, m.trace...), Detail: "loop exceeded unwinding bound in " + fr.fn.String(), KFs: classes, Outside: len(classes) == 0}
	v.Case = m.buildCase("terminates", model)
	m.res.Violations = append(m.res.Violations, v)
}

func (m *Machine) modelTerms() []*Term {
	return m.pathVars
}

func (m *Machine) mkTime(unix *Term) Value {
	tt := m.eng.pkgs["time"].Type("Time").Type()
	st := under(tt).(*types.Struct)
	f := make([]Value, st.NumFields())
	for i := range f {
		f[i] = m.zero(st.Field(i).Type())
	}
	f[1] = unix // ext
	return &StructVal{f: f}
}

func fmtSite(s string) string { return fmt.Sprint(s) }

// usesNL: the path condition mentions an abstracted product / quotient.
func (m *Machine) usesNL(extra ...*Term) bool {
	if !m.in.nlUF {
		return false
	}
	seen := map[int]bool{}
	var walk func(t *Term) bool
	walk = func(t *Term) bool {
		if seen[t.id] {
			return false
		}
		seen[t.id] = true
		if t.op == "uf" && (t.name == "nlmul" || t.name == "nldiv" || t.name == "nlmod") {
			return true
		}
		for _, a := range t.args {
			if walk(a) {
				return true
			}
		}
		return false
	}
	for _, c := range m.pc {
		if walk(c) {
			return true
		}
	}
	for _, c := range extra {
		if walk(c) {
			return true
		}
	}
	return false
}
