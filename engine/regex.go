package main

// A translator from the simple anchored Go regular expressions the modules use (literals, character classes
// with ranges, the quantifiers + * ? {m} {m,n}) to SMT-LIB regular expressions. Anything else is reported as
// unsupported and the caller falls back to an uninterpreted predicate.

import (
	"fmt"
	"strings"
)

func smtReLit(s string) string { return "(str.to_re " + smtString(s) + ")" }

func reToSmt(pat string) (string, bool) {
	if !strings.HasPrefix(pat, "^") || !strings.HasSuffix(pat, "$") {
		return "", false
	}
	p := pat[1 : len(pat)-1]
	var atoms []string
	i := 0
	for i < len(p) {
		var atom string
		c := p[i]
		switch {
		case c == '[':
			j := strings.IndexByte(p[i+1:], ']')
			if j < 0 {
				return "", false
			}
			body := p[i+1 : i+1+j]
			i += j + 2
			if strings.HasPrefix(body, "^") || strings.Contains(body, "\\") {
				return "", false
			}
			var alts []string
			k := 0
			for k < len(body) {
				if k+2 < len(body) && body[k+1] == '-' {
					alts = append(alts, fmt.Sprintf("(re.range %s %s)", smtString(string(body[k])), smtString(string(body[k+2]))))
					k += 3
				} else {
					alts = append(alts, smtReLit(string(body[k])))
					k++
				}
			}
			if len(alts) == 1 {
				atom = alts[0]
			} else {
				atom = "(re.union " + strings.Join(alts, " ") + ")"
			}
		case strings.ContainsRune("()|\\.*+?{}", rune(c)):
			return "", false
		default:
			atom = smtReLit(string(c))
			i++
		}
		// quantifier
		if i < len(p) {
			switch p[i] {
			case '+':
				atom = "(re.+ " + atom + ")"
				i++
			case '*':
				atom = "(re.* " + atom + ")"
				i++
			case '?':
				atom = "(re.opt " + atom + ")"
				i++
			case '{':
				j := strings.IndexByte(p[i:], '}')
				if j < 0 {
					return "", false
				}
				q := p[i+1 : i+j]
				i += j + 1
				var lo, hi int
				if n, _ := fmt.Sscanf(q, "%d,%d", &lo, &hi); n == 2 {
					atom = fmt.Sprintf("((_ re.loop %d %d) %s)", lo, hi, atom)
				} else if n, _ := fmt.Sscanf(q, "%d", &lo); n == 1 && !strings.Contains(q, ",") {
					atom = fmt.Sprintf("((_ re.loop %d %d) %s)", lo, lo, atom)
				} else {
					return "", false
				}
			}
		}
		atoms = append(atoms, atom)
	}
	switch len(atoms) {
	case 0:
		return smtReLit(""), true
	case 1:
		return atoms[0], true
	}
	return "(re.++ " + strings.Join(atoms, " ") + ")", true
}
