package main

// Term DAG: SMT-LIB2 terms over sorts Bool / Int / Real / String, hash-consed per
// Interner (one Interner per worker; no terms cross workers).

import (
	"regexp"
	"fmt"
	"math/big"
	"sort"
	"strconv"
	"strings"
)

type Sort uint8

const (
	SBool Sort = iota
	SInt
	SReal
	SString
)

func (s Sort) String() string {
	switch s {
	case SBool:
		return "Bool"
	case SInt:
		return "Int"
	case SReal:
		return "Real"
	}
	return "String"
}

type Term struct {
	id   int
	op   string // "const", "var", or SMT operator / UF name
	sort Sort
	args []*Term
	// constants
	iv *big.Int
	bv bool
	sv string
	rv *big.Rat
	// var / uf
	name string
	nsym bool // mentions at least one variable
}

func (t *Term) IsConst() bool { return t.op == "const" }

type Interner struct {
	tab    map[string]*Term
	nextID int
	ufs    map[string]string // uf name -> declaration
	vars   map[string]Sort
	varSeq []string
	nlUF   bool // abstract symbolic*symbolic products by an uninterpreted function with sign/zero/unit/growth axioms
}

func NewInterner() *Interner {
	return &Interner{tab: map[string]*Term{}, ufs: map[string]string{}, vars: map[string]Sort{}}
}

func (in *Interner) key(op string, sort Sort, args []*Term, extra string) string {
	var sb strings.Builder
	sb.WriteString(op)
	sb.WriteByte('|')
	sb.WriteByte(byte('0' + sort))
	sb.WriteByte('|')
	sb.WriteString(extra)
	for _, a := range args {
		sb.WriteByte(',')
		sb.WriteString(strconv.Itoa(a.id))
	}
	return sb.String()
}

func (in *Interner) mk(op string, sort Sort, args []*Term, extra string, init func(*Term)) *Term {
	k := in.key(op, sort, args, extra)
	if t, ok := in.tab[k]; ok {
		return t
	}
	t := &Term{id: in.nextID, op: op, sort: sort, args: args}
	in.nextID++
	if init != nil {
		init(t)
	}
	for _, a := range args {
		if a.nsym {
			t.nsym = true
		}
	}
	if op == "var" {
		t.nsym = true
	}
	in.tab[k] = t
	return t
}

// ---- constants

func (in *Interner) Int(v *big.Int) *Term {
	return in.mk("const", SInt, nil, v.String(), func(t *Term) { t.iv = new(big.Int).Set(v) })
}
func (in *Interner) I64(v int64) *Term { return in.Int(big.NewInt(v)) }
func (in *Interner) Bool(b bool) *Term {
	e := "f"
	if b {
		e = "t"
	}
	return in.mk("const", SBool, nil, e, func(t *Term) { t.bv = b })
}
func (in *Interner) Str(s string) *Term {
	return in.mk("const", SString, nil, s, func(t *Term) { t.sv = s })
}
func (in *Interner) Real(r *big.Rat) *Term {
	return in.mk("const", SReal, nil, r.String(), func(t *Term) { t.rv = new(big.Rat).Set(r) })
}

func (in *Interner) Var(name string, s Sort) *Term {
	if old, ok := in.vars[name]; ok {
		if old != s {
			panic("var sort clash " + name)
		}
	} else {
		in.vars[name] = s
		in.varSeq = append(in.varSeq, name)
	}
	return in.mk("var", s, nil, name, func(t *Term) { t.name = name })
}

// UF application; decl like "(declare-fun f (Int String) Int)"
func (in *Interner) UF(name string, ret Sort, args ...*Term) *Term {
	if _, ok := in.ufs[name]; !ok {
		var sb strings.Builder
		sb.WriteString("(declare-fun " + name + " (")
		for i, a := range args {
			if i > 0 {
				sb.WriteByte(' ')
			}
			sb.WriteString(a.sort.String())
		}
		sb.WriteString(") " + ret.String() + ")")
		in.ufs[name] = sb.String()
	}
	if len(args) == 0 {
		return in.mk("uf0", ret, nil, name, func(t *Term) { t.name = name; t.nsym = true })
	}
	t := in.mk("uf", ret, args, name, func(t *Term) { t.name = name })
	t.nsym = true
	return t
}

// ---- boolean

func (in *Interner) Not(a *Term) *Term {
	if a.IsConst() {
		return in.Bool(!a.bv)
	}
	if a.op == "not" {
		return a.args[0]
	}
	return in.mk("not", SBool, []*Term{a}, "", nil)
}

func (in *Interner) And(as ...*Term) *Term {
	var out []*Term
	seen := map[int]bool{}
	for _, a := range as {
		if a.IsConst() {
			if !a.bv {
				return in.Bool(false)
			}
			continue
		}
		if a.op == "and" {
			for _, b := range a.args {
				if !seen[b.id] {
					seen[b.id] = true
					out = append(out, b)
				}
			}
			continue
		}
		if !seen[a.id] {
			seen[a.id] = true
			out = append(out, a)
		}
	}
	for _, a := range out {
		if a.op == "not" && seen[a.args[0].id] {
			return in.Bool(false)
		}
	}
	if len(out) == 0 {
		return in.Bool(true)
	}
	if len(out) == 1 {
		return out[0]
	}
	return in.mk("and", SBool, out, "", nil)
}

func (in *Interner) Or(as ...*Term) *Term {
	var out []*Term
	seen := map[int]bool{}
	for _, a := range as {
		if a.IsConst() {
			if a.bv {
				return in.Bool(true)
			}
			continue
		}
		if a.op == "or" {
			for _, b := range a.args {
				if !seen[b.id] {
					seen[b.id] = true
					out = append(out, b)
				}
			}
			continue
		}
		if !seen[a.id] {
			seen[a.id] = true
			out = append(out, a)
		}
	}
	for _, a := range out {
		if a.op == "not" && seen[a.args[0].id] {
			return in.Bool(true)
		}
	}
	if len(out) == 0 {
		return in.Bool(false)
	}
	if len(out) == 1 {
		return out[0]
	}
	return in.mk("or", SBool, out, "", nil)
}

func (in *Interner) Implies(a, b *Term) *Term { return in.Or(in.Not(a), b) }

func (in *Interner) Ite(c, a, b *Term) *Term {
	if c.IsConst() {
		if c.bv {
			return a
		}
		return b
	}
	if a == b {
		return a
	}
	if a.sort == SBool {
		if a.IsConst() && b.IsConst() {
			if a.bv {
				return c
			}
			return in.Not(c)
		}
		if a.IsConst() {
			if a.bv {
				return in.Or(c, b)
			}
			return in.And(in.Not(c), b)
		}
		if b.IsConst() {
			if b.bv {
				return in.Or(in.Not(c), a)
			}
			return in.And(c, a)
		}
	}
	return in.mk("ite", a.sort, []*Term{c, a, b}, "", nil)
}

func (in *Interner) Eq(a, b *Term) *Term {
	if a == b {
		return in.Bool(true)
	}
	if a.sort != b.sort {
		if a.sort == SInt && b.sort == SReal {
			a = in.ToReal(a)
		} else if a.sort == SReal && b.sort == SInt {
			b = in.ToReal(b)
		} else {
			panic(fmt.Sprintf("Eq sort mismatch %s %s: %s vs %s", a.sort, b.sort, in.Show(a), in.Show(b)))
		}
	}
	if a.IsConst() && b.IsConst() {
		switch a.sort {
		case SBool:
			return in.Bool(a.bv == b.bv)
		case SInt:
			return in.Bool(a.iv.Cmp(b.iv) == 0)
		case SString:
			return in.Bool(a.sv == b.sv)
		case SReal:
			return in.Bool(a.rv.Cmp(b.rv) == 0)
		}
	}
	if a.sort == SBool {
		if a.IsConst() {
			if a.bv {
				return b
			}
			return in.Not(b)
		}
		if b.IsConst() {
			if b.bv {
				return a
			}
			return in.Not(a)
		}
	}
	// ite lifting when one side is const and other is ite of consts
	if b.IsConst() && a.op == "ite" && (a.args[1].IsConst() || a.args[2].IsConst()) {
		return in.Ite(a.args[0], in.Eq(a.args[1], b), in.Eq(a.args[2], b))
	}
	if a.IsConst() && b.op == "ite" && (b.args[1].IsConst() || b.args[2].IsConst()) {
		return in.Ite(b.args[0], in.Eq(a, b.args[1]), in.Eq(a, b.args[2]))
	}
	if a.sort == SString {
		if r := in.strEqSimplify(a, b); r != nil {
			return r
		}
	}
	if a.id > b.id {
		a, b = b, a
	}
	return in.mk("=", SBool, []*Term{a, b}, "", nil)
}

// strEqSimplify strips common literal prefixes/suffixes of concatenations.
func (in *Interner) strEqSimplify(a, b *Term) *Term {
	pa, pb := in.concatParts(a), in.concatParts(b)
	changed := false
	for len(pa) > 0 && len(pb) > 0 {
		x, y := pa[0], pb[0]
		if x == y {
			pa, pb = pa[1:], pb[1:]
			changed = true
			continue
		}
		if x.IsConst() && y.IsConst() {
			n := len(x.sv)
			if len(y.sv) < n {
				n = len(y.sv)
			}
			if x.sv[:n] != y.sv[:n] {
				return in.Bool(false)
			}
			pa = append([]*Term{in.Str(x.sv[n:])}, pa[1:]...)
			pb = append([]*Term{in.Str(y.sv[n:])}, pb[1:]...)
			pa, pb = dropEmpty(pa), dropEmpty(pb)
			changed = true
			continue
		}
		break
	}
	for len(pa) > 0 && len(pb) > 0 {
		x, y := pa[len(pa)-1], pb[len(pb)-1]
		if x == y {
			pa, pb = pa[:len(pa)-1], pb[:len(pb)-1]
			changed = true
			continue
		}
		if x.IsConst() && y.IsConst() {
			n := len(x.sv)
			if len(y.sv) < n {
				n = len(y.sv)
			}
			if x.sv[len(x.sv)-n:] != y.sv[len(y.sv)-n:] {
				return in.Bool(false)
			}
			pa = append(append([]*Term{}, pa[:len(pa)-1]...), in.Str(x.sv[:len(x.sv)-n]))
			pb = append(append([]*Term{}, pb[:len(pb)-1]...), in.Str(y.sv[:len(y.sv)-n]))
			pa, pb = dropEmpty(pa), dropEmpty(pb)
			changed = true
			continue
		}
		break
	}
	if !changed {
		return nil
	}
	if len(pa) == 0 && len(pb) == 0 {
		return in.Bool(true)
	}
	na, nb := in.Concat(pa...), in.Concat(pb...)
	if na.IsConst() && nb.IsConst() {
		return in.Bool(na.sv == nb.sv)
	}
	if na.id > nb.id {
		na, nb = nb, na
	}
	return in.mk("=", SBool, []*Term{na, nb}, "", nil)
}

func dropEmpty(ps []*Term) []*Term {
	var out []*Term
	for _, p := range ps {
		if p.IsConst() && p.sv == "" {
			continue
		}
		out = append(out, p)
	}
	return out
}

func (in *Interner) concatParts(a *Term) []*Term {
	if a.op == "str.++" {
		return append([]*Term{}, a.args...)
	}
	if a.IsConst() && a.sv == "" {
		return nil
	}
	return []*Term{a}
}

// ---- arithmetic

func (in *Interner) coerce(a, b *Term) (*Term, *Term, Sort) {
	if a.sort == b.sort {
		return a, b, a.sort
	}
	if a.sort == SInt && b.sort == SReal {
		return in.ToReal(a), b, SReal
	}
	if a.sort == SReal && b.sort == SInt {
		return a, in.ToReal(b), SReal
	}
	panic("arith sort mismatch " + a.sort.String() + " " + b.sort.String())
}

func (in *Interner) ToReal(a *Term) *Term {
	if a.sort == SReal {
		return a
	}
	if a.IsConst() {
		return in.Real(new(big.Rat).SetInt(a.iv))
	}
	return in.mk("to_real", SReal, []*Term{a}, "", nil)
}

func (in *Interner) ToInt(a *Term) *Term { // floor
	if a.sort == SInt {
		return a
	}
	if a.IsConst() {
		n := new(big.Int).Div(a.rv.Num(), a.rv.Denom()) // Euclidean == floor for positive denom
		return in.Int(n)
	}
	return in.mk("to_int", SInt, []*Term{a}, "", nil)
}

func (in *Interner) Add(a, b *Term) *Term {
	a, b, s := in.coerce(a, b)
	if a.IsConst() && b.IsConst() {
		if s == SInt {
			return in.Int(new(big.Int).Add(a.iv, b.iv))
		}
		return in.Real(new(big.Rat).Add(a.rv, b.rv))
	}
	if s == SInt {
		if a.IsConst() && a.iv.Sign() == 0 {
			return b
		}
		if b.IsConst() && b.iv.Sign() == 0 {
			return a
		}
		// (x + c1) + c2
		if b.IsConst() && a.op == "+" && len(a.args) == 2 && a.args[1].IsConst() {
			return in.Add(a.args[0], in.Int(new(big.Int).Add(a.args[1].iv, b.iv)))
		}
		if a.IsConst() {
			a, b = b, a
		}
	}
	return in.mk("+", s, []*Term{a, b}, "", nil)
}

func (in *Interner) Sub(a, b *Term) *Term {
	a, b, s := in.coerce(a, b)
	if a == b {
		if s == SInt {
			return in.I64(0)
		}
		return in.Real(new(big.Rat))
	}
	if a.IsConst() && b.IsConst() {
		if s == SInt {
			return in.Int(new(big.Int).Sub(a.iv, b.iv))
		}
		return in.Real(new(big.Rat).Sub(a.rv, b.rv))
	}
	if s == SInt && b.IsConst() {
		return in.Add(a, in.Int(new(big.Int).Neg(b.iv)))
	}
	return in.mk("-", s, []*Term{a, b}, "", nil)
}

func (in *Interner) Neg(a *Term) *Term {
	if a.sort == SInt {
		return in.Sub(in.I64(0), a)
	}
	return in.Sub(in.Real(new(big.Rat)), a)
}

func (in *Interner) Mul(a, b *Term) *Term {
	a, b, s := in.coerce(a, b)
	if a.IsConst() && b.IsConst() {
		if s == SInt {
			return in.Int(new(big.Int).Mul(a.iv, b.iv))
		}
		return in.Real(new(big.Rat).Mul(a.rv, b.rv))
	}
	if s == SInt {
		if a.IsConst() {
			a, b = b, a
		}
		if b.IsConst() {
			if b.iv.Sign() == 0 {
				return b
			}
			if b.iv.IsInt64() && b.iv.Int64() == 1 {
				return a
			}
		}
	}
	if s == SInt && in.nlUF && !a.IsConst() && !b.IsConst() {
		if a.id > b.id {
			a, b = b, a
		}
		return in.UF("nlmul", SInt, a, b)
	}
	return in.mk("*", s, []*Term{a, b}, "", nil)
}

// Euclidean div/mod as in SMT-LIB (b != 0 is the caller's duty).
func (in *Interner) Div(a, b *Term) *Term {
	if a.IsConst() && b.IsConst() && b.iv.Sign() != 0 {
		q, _ := new(big.Int).DivMod(a.iv, b.iv, new(big.Int))
		return in.Int(q)
	}
	if b.IsConst() && b.iv.IsInt64() && b.iv.Int64() == 1 {
		return a
	}
	if in.nlUF && !b.IsConst() {
		return in.UF("nldiv", SInt, a, b)
	}
	return in.mk("div", SInt, []*Term{a, b}, "", nil)
}
func (in *Interner) Mod(a, b *Term) *Term {
	if a.IsConst() && b.IsConst() && b.iv.Sign() != 0 {
		_, m := new(big.Int).DivMod(a.iv, b.iv, new(big.Int))
		return in.Int(m)
	}
	if b.IsConst() && b.iv.IsInt64() && b.iv.Int64() == 1 {
		return in.I64(0)
	}
	if in.nlUF && !b.IsConst() {
		return in.UF("nlmod", SInt, a, b)
	}
	return in.mk("mod", SInt, []*Term{a, b}, "", nil)
}

func (in *Interner) RDiv(a, b *Term) *Term {
	a, b = in.ToReal(a), in.ToReal(b)
	if a.IsConst() && b.IsConst() && b.rv.Sign() != 0 {
		return in.Real(new(big.Rat).Quo(a.rv, b.rv))
	}
	return in.mk("/", SReal, []*Term{a, b}, "", nil)
}

// truncated quotient / remainder (Go semantics for signed ints, big.Int Quo/Rem)
func (in *Interner) TQuo(a, b *Term) *Term {
	if a.IsConst() && b.IsConst() && b.iv.Sign() != 0 {
		return in.Int(new(big.Int).Quo(a.iv, b.iv))
	}
	z := in.I64(0)
	if in.knownNonNeg(a) && in.knownNonNeg(b) {
		return in.Div(a, b)
	}
	if b.IsConst() && b.iv.Sign() > 0 {
		return in.Ite(in.Le(z, a), in.Div(a, b), in.Neg(in.Div(in.Neg(a), b)))
	}
	absA := in.Ite(in.Le(z, a), a, in.Neg(a))
	absB := in.Ite(in.Le(z, b), b, in.Neg(b))
	q := in.Div(absA, absB)
	same := in.Eq(in.Le(z, a), in.Le(z, b))
	return in.Ite(same, q, in.Neg(q))
}
func (in *Interner) TRem(a, b *Term) *Term {
	if a.IsConst() && b.IsConst() && b.iv.Sign() != 0 {
		return in.Int(new(big.Int).Rem(a.iv, b.iv))
	}
	if in.knownNonNeg(a) && in.knownNonNeg(b) {
		return in.Mod(a, b)
	}
	return in.Sub(a, in.Mul(b, in.TQuo(a, b)))
}

func (in *Interner) knownNonNeg(a *Term) bool {
	if a.IsConst() {
		return a.iv.Sign() >= 0
	}
	switch a.op {
	case "mod", "str.len", "str.to_code":
		return true
	case "div":
		return in.knownNonNeg(a.args[0]) && in.knownNonNeg(a.args[1])
	case "var":
		return strings.HasPrefix(a.name, "u!") // unsigned-declared symbols
	}
	return false
}

func (in *Interner) Lt(a, b *Term) *Term {
	a, b, s := in.coerce(a, b)
	if a == b {
		return in.Bool(false)
	}
	if a.IsConst() && b.IsConst() {
		if s == SInt {
			return in.Bool(a.iv.Cmp(b.iv) < 0)
		}
		return in.Bool(a.rv.Cmp(b.rv) < 0)
	}
	return in.mk("<", SBool, []*Term{a, b}, "", nil)
}
func (in *Interner) Le(a, b *Term) *Term {
	a, b, s := in.coerce(a, b)
	if a == b {
		return in.Bool(true)
	}
	if a.IsConst() && b.IsConst() {
		if s == SInt {
			return in.Bool(a.iv.Cmp(b.iv) <= 0)
		}
		return in.Bool(a.rv.Cmp(b.rv) <= 0)
	}
	return in.mk("<=", SBool, []*Term{a, b}, "", nil)
}
func (in *Interner) Gt(a, b *Term) *Term { return in.Lt(b, a) }
func (in *Interner) Ge(a, b *Term) *Term { return in.Le(b, a) }

// ---- strings

func (in *Interner) Concat(parts ...*Term) *Term {
	var out []*Term
	for _, p := range parts {
		if p.op == "str.++" {
			for _, q := range p.args {
				out = appendStrPart(in, out, q)
			}
		} else {
			out = appendStrPart(in, out, p)
		}
	}
	if len(out) == 0 {
		return in.Str("")
	}
	if len(out) == 1 {
		return out[0]
	}
	return in.mk("str.++", SString, out, "", nil)
}
func appendStrPart(in *Interner, out []*Term, p *Term) []*Term {
	if p.sort != SString {
		panic("concat of non-string")
	}
	if p.IsConst() {
		if p.sv == "" {
			return out
		}
		if n := len(out); n > 0 && out[n-1].IsConst() {
			out[n-1] = in.Str(out[n-1].sv + p.sv)
			return out
		}
	}
	return append(out, p)
}

func (in *Interner) StrLen(a *Term) *Term {
	if a.IsConst() {
		return in.I64(int64(len(a.sv)))
	}
	if a.op == "str.++" {
		r := in.I64(0)
		for _, p := range a.args {
			r = in.Add(r, in.StrLen(p))
		}
		return r
	}
	return in.mk("str.len", SInt, []*Term{a}, "", nil)
}
func (in *Interner) StrContains(a, b *Term) *Term {
	if a.IsConst() && b.IsConst() {
		return in.Bool(strings.Contains(a.sv, b.sv))
	}
	if b.IsConst() && b.sv == "" {
		return in.Bool(true)
	}
	return in.mk("str.contains", SBool, []*Term{a, b}, "", nil)
}
func (in *Interner) StrPrefixOf(p, a *Term) *Term { // p is prefix of a
	if a.IsConst() && p.IsConst() {
		return in.Bool(strings.HasPrefix(a.sv, p.sv))
	}
	return in.mk("str.prefixof", SBool, []*Term{p, a}, "", nil)
}
func (in *Interner) StrSuffixOf(p, a *Term) *Term {
	if a.IsConst() && p.IsConst() {
		return in.Bool(strings.HasSuffix(a.sv, p.sv))
	}
	return in.mk("str.suffixof", SBool, []*Term{p, a}, "", nil)
}
func (in *Interner) StrIndexOf(a, b, from *Term) *Term {
	if a.IsConst() && b.IsConst() && from.IsConst() {
		f := int(from.iv.Int64())
		if f < 0 || f > len(a.sv) {
			return in.I64(-1)
		}
		i := strings.Index(a.sv[f:], b.sv)
		if i < 0 {
			return in.I64(-1)
		}
		return in.I64(int64(i + f))
	}
	return in.mk("str.indexof", SInt, []*Term{a, b, from}, "", nil)
}
func (in *Interner) StrSubstr(a, off, n *Term) *Term {
	if a.IsConst() && off.IsConst() && n.IsConst() {
		o, l := off.iv.Int64(), n.iv.Int64()
		if o < 0 || o >= int64(len(a.sv)) || l <= 0 {
			return in.Str("")
		}
		e := o + l
		if e > int64(len(a.sv)) {
			e = int64(len(a.sv))
		}
		return in.Str(a.sv[o:e])
	}
	return in.mk("str.substr", SString, []*Term{a, off, n}, "", nil)
}
func (in *Interner) StrReplaceAll(a, b, c *Term) *Term {
	if a.IsConst() && b.IsConst() && c.IsConst() && b.sv != "" {
		return in.Str(strings.ReplaceAll(a.sv, b.sv, c.sv))
	}
	return in.mk("str.replace_all", SString, []*Term{a, b, c}, "", nil)
}
func (in *Interner) StrFromInt(a *Term) *Term { // non-negative only
	if a.IsConst() && a.iv.Sign() >= 0 {
		return in.Str(a.iv.String())
	}
	return in.mk("str.from_int", SString, []*Term{a}, "", nil)
}
func (in *Interner) StrToCode(a *Term) *Term { // single char
	if a.IsConst() && len(a.sv) == 1 {
		return in.I64(int64(a.sv[0]))
	}
	return in.mk("str.to_code", SInt, []*Term{a}, "", nil)
}
func (in *Interner) StrFromCode(a *Term) *Term {
	if a.IsConst() && a.iv.IsInt64() && a.iv.Int64() >= 0 && a.iv.Int64() < 256 {
		return in.Str(string([]byte{byte(a.iv.Int64())}))
	}
	return in.mk("str.from_code", SString, []*Term{a}, "", nil)
}
// StrInRe: membership in a regular language given as SMT-LIB text (kept in name); constant strings are decided
// with the Go pattern.
func (in *Interner) StrInRe(a *Term, reSmt string, goPattern *regexp.Regexp) *Term {
	if a.IsConst() && goPattern != nil {
		return in.Bool(goPattern.MatchString(a.sv))
	}
	return in.mk("str.in_re", SBool, []*Term{a}, reSmt, func(t *Term) { t.name = reSmt })
}

func (in *Interner) StrLt(a, b *Term) *Term {
	if a.IsConst() && b.IsConst() {
		return in.Bool(a.sv < b.sv)
	}
	return in.mk("str.<", SBool, []*Term{a, b}, "", nil)
}

// ---- printing

func smtString(s string) string {
	var sb strings.Builder
	sb.WriteByte('"')
	for i := 0; i < len(s); i++ {
		c := s[i]
		switch {
		case c == '"':
			sb.WriteString("\"\"")
		case c < 32 || c > 126 || c == '\\':
			fmt.Fprintf(&sb, "\\u{%x}", c)
		default:
			sb.WriteByte(c)
		}
	}
	sb.WriteByte('"')
	return sb.String()
}

func smtInt(v *big.Int) string {
	if v.Sign() < 0 {
		return "(- " + new(big.Int).Neg(v).String() + ")"
	}
	return v.String()
}

func smtReal(r *big.Rat) string {
	n, d := r.Num(), r.Denom()
	s := "(/ " + new(big.Int).Abs(n).String() + ".0 " + d.String() + ".0)"
	if n.Sign() < 0 {
		return "(- " + s + ")"
	}
	return s
}

// head returns the text for a term given already-named sub terms.
func (in *Interner) render(t *Term, ref func(*Term) string) string {
	switch t.op {
	case "const":
		switch t.sort {
		case SBool:
			if t.bv {
				return "true"
			}
			return "false"
		case SInt:
			return smtInt(t.iv)
		case SReal:
			return smtReal(t.rv)
		default:
			return smtString(t.sv)
		}
	case "var", "uf0":
		return t.name
	case "uf":
		var sb strings.Builder
		sb.WriteString("(" + t.name)
		for _, a := range t.args {
			sb.WriteByte(' ')
			sb.WriteString(ref(a))
		}
		sb.WriteByte(')')
		return sb.String()
	}
	if t.op == "str.in_re" {
		return "(str.in_re " + ref(t.args[0]) + " " + t.name + ")"
	}
	var sb strings.Builder
	sb.WriteString("(" + t.op)
	for _, a := range t.args {
		sb.WriteByte(' ')
		sb.WriteString(ref(a))
	}
	sb.WriteByte(')')
	return sb.String()
}

// Show renders a term fully inline (debug / evidence samples).
func (in *Interner) Show(t *Term) string {
	var f func(*Term) string
	f = func(x *Term) string { return in.render(x, f) }
	s := f(t)
	if len(s) > 4000 {
		s = s[:4000] + "..."
	}
	return s
}

func sortedKeys(m map[string]string) []string {
	ks := make([]string, 0, len(m))
	for k := range m {
		ks = append(ks, k)
	}
	sort.Strings(ks)
	return ks
}
