package main

import (
	"math/big"
)

// ---- byte-string helpers

func normSegs(segs []Seg) []Seg {
	var out []Seg
	for _, s := range segs {
		if s.k == SegLit {
			if s.lit == "" {
				continue
			}
			if n := len(out); n > 0 && out[n-1].k == SegLit {
				out[n-1].lit += s.lit
				continue
			}
		}
		if s.k == SegStr && s.t.IsConst() {
			if s.t.sv == "" {
				continue
			}
			out = append(out, Seg{k: SegLit, lit: s.t.sv})
			continue
		}
		out = append(out, s)
	}
	// merge adjacent literals produced by the Str->Lit rewrite
	var o2 []Seg
	for _, s := range out {
		if n := len(o2); n > 0 && s.k == SegLit && o2[n-1].k == SegLit {
			o2[n-1].lit += s.lit
			continue
		}
		o2 = append(o2, s)
	}
	return o2
}

func (m *Machine) be64Byte(x *Term, i int) *Term {
	p := new(big.Int).Lsh(big.NewInt(1), uint(8*(7-i)))
	return m.in.Mod(m.in.Div(x, m.in.Int(p)), m.in.I64(256))
}

// matchBE64Byte recognises terms built by be64Byte.
func matchBE64Byte(t *Term) (*Term, int, bool) {
	if t.op != "mod" || !t.args[1].IsConst() || t.args[1].iv.Cmp(big.NewInt(256)) != 0 {
		return nil, 0, false
	}
	inner := t.args[0]
	if inner.op == "div" && inner.args[1].IsConst() {
		c := inner.args[1].iv
		for i := 0; i < 7; i++ {
			if c.Cmp(new(big.Int).Lsh(big.NewInt(1), uint(8*(7-i)))) == 0 {
				return inner.args[0], i, true
			}
		}
		return nil, 0, false
	}
	return inner, 7, true
}

// toBytes converts any byte-slice representation into a BytesVal.
func (m *Machine) toBytes(v Value) *BytesVal {
	v = m.force(v)
	switch s := v.(type) {
	case *BytesVal:
		return s
	case *SliceVal:
		if s.isNil {
			return &BytesVal{isNil: true}
		}
		var segs []Seg
		for i := 0; i < s.len; i++ {
			t, ok := s.cell.elems[s.off+i].(*Term)
			if !ok {
				m.unsupported("non-scalar byte cell")
			}
			if t.IsConst() {
				segs = append(segs, Seg{k: SegLit, lit: string([]byte{byte(t.iv.Int64())})})
				continue
			}
			// eight consecutive big-endian bytes of the same value
			if x, k, ok := matchBE64Byte(t); ok && k == 0 && i+8 <= s.len {
				all := true
				for j := 1; j < 8; j++ {
					tj, okj := s.cell.elems[s.off+i+j].(*Term)
					if !okj {
						all = false
						break
					}
					xj, kj, okm := matchBE64Byte(tj)
					if !okm || xj != x || kj != j {
						all = false
						break
					}
				}
				if all {
					segs = append(segs, Seg{k: SegBE64, t: x})
					i += 7
					continue
				}
			}
			segs = append(segs, Seg{k: SegByte, t: t})
		}
		return &BytesVal{segs: normSegs(segs)}
	case *Term:
		if s.IsConst() {
			return &BytesVal{segs: litSegs(s.sv)}
		}
		return &BytesVal{segs: []Seg{{k: SegStr, t: s}}}
	}
	m.unsupported("toBytes of %T", v)
	return nil
}

func (m *Machine) bytesToStr(b *BytesVal) *Term {
	parts := []*Term{}
	for _, s := range b.segs {
		switch s.k {
		case SegLit:
			parts = append(parts, m.in.Str(s.lit))
		case SegStr, SegUF:
			parts = append(parts, s.t)
		case SegByte:
			parts = append(parts, m.in.StrFromCode(s.t))
		case SegBE64:
			parts = append(parts, m.in.UF("be64s", SString, s.t))
		case SegAddr:
			parts = append(parts, m.in.UF("addrbytes", SString, s.t))
		case SegTok:
			parts = append(parts, m.tokStr(s.tok))
		}
	}
	return m.in.Concat(parts...)
}

// tokStr gives an opaque string standing for the serialisation of a token.
func (m *Machine) tokStr(t *Token) *Term {
	return m.in.UF("tokbytes", SString, m.in.I64(int64(t.id)))
}

// staticLen returns the byte length when it is syntactically known.
func staticLen(b *BytesVal) (int, bool) {
	n := 0
	for _, s := range b.segs {
		switch s.k {
		case SegLit:
			n += len(s.lit)
		case SegBE64:
			n += 8
		case SegByte:
			n++
		case SegAddr:
			n += 20
		default:
			return 0, false
		}
	}
	return n, true
}

func (m *Machine) bytesLen(b *BytesVal) *Term {
	r := m.in.I64(0)
	for _, s := range b.segs {
		switch s.k {
		case SegLit:
			r = m.in.Add(r, m.in.I64(int64(len(s.lit))))
		case SegBE64:
			r = m.in.Add(r, m.in.I64(8))
		case SegByte:
			r = m.in.Add(r, m.in.I64(1))
		case SegAddr:
			r = m.in.Add(r, m.in.I64(20))
		case SegStr, SegUF:
			r = m.in.Add(r, m.in.StrLen(s.t))
		case SegTok:
			r = m.in.Add(r, m.tokLen(s.tok))
		}
	}
	return r
}

func (m *Machine) tokLen(t *Token) *Term {
	if t.entry != nil && t.entry.raw != nil && t.entry.rawLen > 0 {
		return m.in.I64(int64(t.entry.rawLen))
	}
	l := m.in.UF("toklen", SInt, m.in.I64(int64(t.id)))
	m.addPC(m.in.Le(m.in.I64(0), l))
	return l
}

// bytesToCells converts a byte string of syntactically known length into a cell-backed slice.
func (m *Machine) bytesToCells(b *BytesVal) *SliceVal {
	if b.isNil {
		return &SliceVal{isNil: true}
	}
	var elems []Value
	for _, s := range b.segs {
		switch s.k {
		case SegLit:
			for i := 0; i < len(s.lit); i++ {
				elems = append(elems, m.in.I64(int64(s.lit[i])))
			}
		case SegByte:
			elems = append(elems, s.t)
		case SegBE64:
			for i := 0; i < 8; i++ {
				elems = append(elems, m.be64Byte(s.t, i))
			}
		case SegTok:
			if s.tok.entry != nil {
				raw := m.rawView(s.tok.entry, 0)
				if raw != nil {
					sl := m.bytesToCells(raw)
					for i := 0; i < sl.len; i++ {
						elems = append(elems, sl.cell.elems[sl.off+i])
					}
					continue
				}
			}
			m.unsupported("indexing into an opaque serialised value at %s", m.repoSite())
		case SegStr, SegUF:
			if s.t.IsConst() {
				for i := 0; i < len(s.t.sv); i++ {
					elems = append(elems, m.in.I64(int64(s.t.sv[i])))
				}
				continue
			}
			// symbolic-length bytes: concretise the length within the string bound
			n := m.concretize(m.in.StrLen(s.t), 0, m.eng.cfg.MaxStrCells, "byte-string length")
			for i := 0; i < n; i++ {
				elems = append(elems, m.in.StrToCode(m.in.StrSubstr(s.t, m.in.I64(int64(i)), m.in.I64(1))))
			}
		default:
			m.unsupported("byte cells of segment kind %d", s.k)
		}
	}
	c := m.newCell(m.eng.byteType, len(elems), "bytes")
	copy(c.elems, elems)
	return &SliceVal{cell: c, len: len(elems), cap: len(elems)}
}

// ---- key equality

func segEq(a, b Seg) bool {
	if a.k != b.k {
		return false
	}
	switch a.k {
	case SegLit:
		return a.lit == b.lit
	case SegTok:
		return a.tok == b.tok
	}
	return a.t == b.t
}

// bytesEq returns a Bool term for equality of two byte strings.
func (m *Machine) bytesEq(a, b *BytesVal) *Term {
	x := normSegs(append([]Seg{}, a.segs...))
	y := normSegs(append([]Seg{}, b.segs...))
	// strip common prefix
	for len(x) > 0 && len(y) > 0 {
		if segEq(x[0], y[0]) {
			x, y = x[1:], y[1:]
			continue
		}
		if x[0].k == SegLit && y[0].k == SegLit {
			n := len(x[0].lit)
			if len(y[0].lit) < n {
				n = len(y[0].lit)
			}
			if x[0].lit[:n] != y[0].lit[:n] {
				return m.in.Bool(false)
			}
			x = normSegs(append([]Seg{{k: SegLit, lit: x[0].lit[n:]}}, x[1:]...))
			y = normSegs(append([]Seg{{k: SegLit, lit: y[0].lit[n:]}}, y[1:]...))
			continue
		}
		break
	}
	// strip common suffix
	for len(x) > 0 && len(y) > 0 {
		lx, ly := x[len(x)-1], y[len(y)-1]
		if segEq(lx, ly) {
			x, y = x[:len(x)-1], y[:len(y)-1]
			continue
		}
		if lx.k == SegLit && ly.k == SegLit {
			n := len(lx.lit)
			if len(ly.lit) < n {
				n = len(ly.lit)
			}
			if lx.lit[len(lx.lit)-n:] != ly.lit[len(ly.lit)-n:] {
				return m.in.Bool(false)
			}
			x = normSegs(append(append([]Seg{}, x[:len(x)-1]...), Seg{k: SegLit, lit: lx.lit[:len(lx.lit)-n]}))
			y = normSegs(append(append([]Seg{}, y[:len(y)-1]...), Seg{k: SegLit, lit: ly.lit[:len(ly.lit)-n]}))
			continue
		}
		break
	}
	if len(x) == 0 && len(y) == 0 {
		return m.in.Bool(true)
	}
	bx, by := &BytesVal{segs: x}, &BytesVal{segs: y}
	if nx, ok1 := staticLen(bx); ok1 {
		if ny, ok2 := staticLen(by); ok2 && nx != ny {
			return m.in.Bool(false)
		}
	}
	if len(x) == 1 && len(y) == 1 && x[0].k == y[0].k {
		switch x[0].k {
		case SegStr, SegUF, SegBE64, SegByte, SegAddr:
			return m.in.Eq(x[0].t, y[0].t)
		case SegTok:
			return m.in.Bool(x[0].tok == y[0].tok)
		}
	}
	// BE64(x) vs 8 literal bytes
	if len(x) == 1 && len(y) == 1 {
		if x[0].k == SegLit && y[0].k == SegBE64 {
			x, y = y, x
		}
		if x[0].k == SegBE64 && y[0].k == SegLit && len(y[0].lit) == 8 {
			v := new(big.Int).SetBytes([]byte(y[0].lit))
			return m.in.Eq(x[0].t, m.in.Int(v))
		}
	}
	for _, s := range append(append([]Seg{}, x...), y...) {
		if s.k == SegTok {
			return m.in.Bool(false) // serialised records are never used as keys
		}
	}
	// fallback: string equality with length facts for fixed-size pieces
	sx, sy := m.bytesToStr(bx), m.bytesToStr(by)
	for _, s := range append(append([]Seg{}, x...), y...) {
		if s.k == SegBE64 {
			m.addPC(m.in.Eq(m.in.StrLen(m.in.UF("be64s", SString, s.t)), m.in.I64(8)))
		}
		if s.k == SegAddr {
			m.addPC(m.in.Eq(m.in.StrLen(m.in.UF("addrbytes", SString, s.t)), m.in.I64(20)))
		}
	}
	return m.in.Eq(sx, sy)
}

// hasLitPrefix reports whether key b syntactically starts with / cannot start with the literal p.
// returns (yes, known)
func hasLitPrefix(b *BytesVal, p string) (bool, bool) {
	if p == "" {
		return true, true
	}
	segs := normSegs(append([]Seg{}, b.segs...))
	if len(segs) == 0 {
		return false, true
	}
	if segs[0].k != SegLit {
		return false, false
	}
	l := segs[0].lit
	if len(l) >= len(p) {
		return l[:len(p)] == p, true
	}
	if p[:len(l)] != l {
		return false, true
	}
	return false, len(segs) == 1
}
