package main

import (
	"bufio"
	"encoding/json"
	"flag"
	"fmt"
	"go/constant"
	"os"
	"path/filepath"
	"regexp"
	"sort"
	"strings"
	"time"

	"golang.org/x/tools/go/ssa"
)

type KnownFinding struct {
	ID         string `json:"id"`
	Property   string `json:"property"`
	Obligation string `json:"obligation,omitempty"`
	Label      string `json:"label,omitempty"`
	Site       string `json:"site,omitempty"`     // for panic/unwind classes: innermost repo function file (line-insensitive match on file:func)
	PanicKind  string `json:"panic_kind,omitempty"`
	Status     string `json:"status"` // known | fixed
	Commit     string `json:"commit,omitempty"`
	What       string `json:"what"`
	Witness    string `json:"witness_test,omitempty"`
}

var knownFindings []KnownFinding

func loadKnownFindings(path string) {
	f, err := os.Open(path)
	if err != nil {
		return
	}
	defer f.Close()
	sc := bufio.NewScanner(f)
	sc.Buffer(make([]byte, 1<<20), 1<<20)
	for sc.Scan() {
		line := strings.TrimSpace(sc.Text())
		if line == "" || strings.HasPrefix(line, "#") {
			continue
		}
		var k KnownFinding
		if err := json.Unmarshal([]byte(line), &k); err == nil {
			knownFindings = append(knownFindings, k)
		}
	}
}

func (e *Engine) kfKnown(id string) bool {
	for _, k := range knownFindings {
		if k.ID == id && k.Status == "known" {
			return true
		}
	}
	return false
}

// kfPanicClasses returns the ids of known panic findings whose site matches.
func (e *Engine) kfPanicClasses(site, kind string) []string {
	var out []string
	for _, k := range knownFindings {
		if k.Status != "known" || k.Site == "" {
			continue
		}
		if siteMatches(k.Site, site) && (k.PanicKind == "" || k.PanicKind == kind) {
			out = append(out, k.ID)
		}
	}
	return out
}

// siteMatches compares "file.go:123" sites by file and a ±0 line; entries may omit the line.
func siteMatches(pattern, site string) bool {
	if pattern == site {
		return true
	}
	if !strings.Contains(pattern, ":") {
		return strings.HasPrefix(site, pattern+":")
	}
	return false
}

func kfByID(id string) *KnownFinding {
	for i := range knownFindings {
		if knownFindings[i].ID == id {
			return &knownFindings[i]
		}
	}
	return nil
}

type ObEvidence struct {
	Name        string            `json:"name"`
	Paths       int               `json:"paths"`
	PathsOK     int               `json:"paths_ok"`
	PathsPanic  int               `json:"paths_panic"`
	Aborts      map[string]int    `json:"aborts,omitempty"`
	AbortSample map[string]string `json:"abort_samples,omitempty"`
	Covers      map[string]int    `json:"cover_points"`
	Forks       int               `json:"forks"`
	SymPaths    int               `json:"paths_with_symbolic_pc"`
	Incon       []string          `json:"inconclusive,omitempty"`
	Status      string            `json:"status"`
	WallS       float64           `json:"wall_s"`
	PCSamples   []string          `json:"path_condition_samples,omitempty"`
	Violations  []string          `json:"violations,omitempty"`
}

func main() {
	if len(os.Args) < 2 {
		fmt.Fprintln(os.Stderr, "usage: gosym run|list ...")
		os.Exit(2)
	}
	switch os.Args[1] {
	case "run":
		os.Exit(cmdRun(os.Args[2:]))
	default:
		fmt.Fprintln(os.Stderr, "unknown command")
		os.Exit(2)
	}
}

func cmdRun(args []string) int {
	fs := flag.NewFlagSet("run", flag.ExitOnError)
	repo := fs.String("repo", "/repo", "repository")
	harness := fs.String("harness", "/verif/harness/zzverif", "harness overlay directory")
	tier := fs.String("tier", "quick", "quick|thorough")
	prop := fs.String("prop", "", "property id (Cnn)")
	only := fs.String("ob", "", "run only obligations whose name contains this")
	out := fs.String("out", "", "result json (engine-level)")
	casesDir := fs.String("cases", "", "directory for counterexample case files")
	kf := fs.String("kf", "/verif/known_findings.jsonl", "known findings file")
	workers := fs.Int("workers", 16, "workers")
	pathLimit := fs.Int("pathlimit", 0, "override path limit")
	obTimeout := fs.Int("obtimeout", 0, "seconds per obligation (0 = tier default)")
	budget := fs.Int("budget", 0, "seconds for the whole run: obligations not started by then are reported inconclusive (0 = none)")
	fs.Parse(args)

	loadKnownFindings(*kf)
	cfg := defaultConfig(*tier)
	cfg.Workers = *workers
	if *pathLimit > 0 {
		cfg.PathLimit = *pathLimit
	}
	if *obTimeout > 0 {
		cfg.ObTimeoutS = *obTimeout
	}
	t0 := time.Now()
	eng, err := loadProgram(*repo, *harness, cfg)
	if err != nil {
		fmt.Fprintln(os.Stderr, "LOAD-ERROR:", err)
		return 2
	}
	fmt.Fprintf(os.Stderr, "loaded in %.1fs\n", eng.loadSecs)
	if os.Getenv("GOSYM_FORKS") != "" {
		eng.forkSites = map[string]int{}
		defer func() {
			type kv struct {
				k string
				v int
			}
			var l []kv
			for k, v := range eng.forkSites {
				l = append(l, kv{k, v})
			}
			sort.Slice(l, func(i, j int) bool { return l[i].v > l[j].v })
			for i, e := range l {
				if i > 25 {
					break
				}
				fmt.Fprintf(os.Stderr, "fork-site %6d %s\n", e.v, e.k)
			}
		}()
	}

	var obs []*Obligation
	var names []string
	for name := range eng.harnessPkg.Members {
		names = append(names, name)
	}
	sort.Strings(names)
	for _, name := range names {
		fn, ok := eng.harnessPkg.Members[name].(*ssa.Function)
		if !ok || !strings.HasPrefix(name, "Ob_") {
			continue
		}
		parts := strings.SplitN(name, "_", 3)
		if len(parts) < 3 {
			continue
		}
		if *prop != "" && !obHasProp(parts[1], *prop) {
			continue
		}
		if *only != "" {
			if ok, _ := regexp.MatchString(*only, name); !ok {
				continue
			}
		}
		if *tier == "quick" && strings.HasSuffix(name, "_T") {
			continue // thorough-only obligations end in _T
		}
		obs = append(obs, &Obligation{Name: name, Fn: fn})
	}
	if len(obs) == 0 {
		fmt.Fprintln(os.Stderr, "no obligations selected")
		return 2
	}

	type outT struct {
		Property    string             `json:"property"`
		Tier        string             `json:"tier"`
		LoadS       float64            `json:"load_s"`
		WallS       float64            `json:"wall_s"`
		Obligations []*ObEvidence      `json:"obligations"`
		Funcs       map[string]int     `json:"functions_encoded"`
		Solver      map[string]*SolverStats `json:"solver"`
		Cases       []string           `json:"cases"`
		Bounds      map[string]interface{} `json:"bounds"`
		Engine      map[string]interface{} `json:"engine"`
	}
	res := &outT{Property: *prop, Tier: *tier, LoadS: eng.loadSecs, Funcs: map[string]int{}, Solver: gStats}
	res.Bounds = map[string]interface{}{"unwind": cfg.Unwind, "enum_bound_N": cfg.EnumBound, "slice_bound": cfg.SliceBound,
		"map_perm": cfg.MaxMapPerm, "path_limit": cfg.PathLimit, "query_ms": cfg.QueryMs, "ints": "64-bit wrapping, exact", "big": "unbounded (|x| <= 2^100 assumed for stored amounts)"}
	caseN := 0
	runStart := time.Now()
	for _, ob := range obs {
		if *budget > 0 && time.Since(runStart) > time.Duration(*budget)*time.Second {
			// the run's time budget is used up: say so instead of silently skipping
			res.Obligations = append(res.Obligations, &ObEvidence{Name: ob.Name, Status: "inconclusive:not-run(time budget of the check used up)"})
			fmt.Fprintf(os.Stderr, "%-44s %s\n", ob.Name, "inconclusive:not-run(budget)")
			continue
		}
		r := eng.explore(ob)
		oe := &ObEvidence{Name: r.Name, Paths: r.Paths, PathsOK: r.PathsOK, PathsPanic: r.PathsPanic, Aborts: r.Aborts, AbortSample: r.AbortSample,
			Covers: r.Covers, Forks: r.Forks, SymPaths: r.SymPaths, WallS: r.WallS, PCSamples: r.Samples}
		seenIncon := map[string]bool{}
		for _, s := range r.Incon {
			if !seenIncon[s] {
				seenIncon[s] = true
				oe.Incon = append(oe.Incon, s)
			}
		}
		for k, v := range r.Funcs {
			res.Funcs[k] += v
		}
		status := "discharged"
		if r.PathLimited {
			status = "inconclusive:path-limit"
		}
		for k := range r.Aborts {
			if k == "abort:unsupported" || k == "abort:budget" || k == "abort:unwind" {
				status = "inconclusive:" + strings.TrimPrefix(k, "abort:")
			}
		}
		if len(oe.Incon) > 0 && status == "discharged" {
			status = "inconclusive:solver-unknown"
		}
		// vacuity guard: every cover point written in the harness must be reached by some path
		for _, want := range expectedCovers(ob.Fn) {
			if r.Covers[want] == 0 && status == "discharged" {
				status = "inconclusive:vacuous(" + want + ")"
			}
		}
		for _, v := range r.Violations {
			caseN++
			v.Case.Obligation = ob.Name
			v.Case.Kind = v.Kind
			v.Case.Site = v.Site
			v.Case.Detail = v.Detail
			desc := fmt.Sprintf("%s label=%s kind=%s site=%s kf=%v outside=%v", ob.Name, v.Label, v.Kind, v.Site, v.KFs, v.Outside)
			dupDesc := false
			for _, d := range oe.Violations {
				dupDesc = dupDesc || d == desc
			}
			if !dupDesc {
				oe.Violations = append(oe.Violations, desc)
			}
			if *casesDir != "" {
				os.MkdirAll(*casesDir, 0o755)
				p := filepath.Join(*casesDir, fmt.Sprintf("%s-%s-%d.json", ob.Name, cleanName(v.Label), caseN))
				b, _ := json.MarshalIndent(struct {
					*CaseFile
					KFs     []string `json:"known_finding_classes"`
					Outside bool     `json:"outside_known_classes"`
					Group   string   `json:"group"`
				}{v.Case, v.KFs, v.Outside, fmt.Sprintf("%s|%s|%s|%s|%v|%v", ob.Name, v.Label, v.Kind, v.Site, v.KFs, v.Outside)}, "", " ")
				os.WriteFile(p, b, 0o644)
				res.Cases = append(res.Cases, p)
			}
			if status == "discharged" {
				status = "violated"
			}
		}
		for _, sp := range r.Spurious {
			oe.Incon = append(oe.Incon, "spurious-under-abstraction: "+sp)
		}
		oe.Status = status
		res.Obligations = append(res.Obligations, oe)
		fmt.Fprintf(os.Stderr, "%-44s %-28s paths=%d ok=%d panic=%d aborts=%v viol=%d forks=%d %.1fs\n", ob.Name, status, r.Paths, r.PathsOK, r.PathsPanic, r.Aborts, len(r.Violations), r.Forks, r.WallS)
		for k, s := range r.AbortSample {
			if k != "abort:assume" && k != "abort:assert-stop" {
				fmt.Fprintf(os.Stderr, "    %s: %s\n", k, s)
			}
		}
		for _, v := range oe.Violations {
			fmt.Fprintf(os.Stderr, "    SAT %s\n", v)
		}
	}
	res.WallS = time.Since(t0).Seconds()
	for k, st := range gStats {
		fmt.Fprintf(os.Stderr, "solver %s: queries=%d sat=%d unsat=%d unknown=%d time=%.1fs\n", k, st.Queries, st.SatN, st.UnsatN, st.UnknownN, float64(st.Nanos)/1e9)
	}
	res.Engine = map[string]interface{}{"solvers": "cvc5 1.0.x --incremental (primary), z3-new 5.1.0 (fallback on unknown for string-free queries)", "ssa": "golang.org/x/tools v0.29.0 go/ssa, InstantiateGenerics"}
	if *out != "" {
		b, _ := json.MarshalIndent(res, "", " ")
		os.WriteFile(*out, b, 0o644)
	}
	return 0
}

func obHasProp(tag, prop string) bool {
	// obligation tags look like C05 or C05C13 (serves several properties)
	for i := 0; i+3 <= len(tag); i += 3 {
		if tag[i:i+3] == prop {
			return true
		}
	}
	return false
}

// expectedCovers lists the constant labels of sym.Cover calls in a harness function.
func expectedCovers(fn *ssa.Function) []string {
	var out []string
	for _, b := range fn.Blocks {
		for _, ins := range b.Instrs {
			c, ok := ins.(*ssa.Call)
			if !ok {
				continue
			}
			callee := c.Call.StaticCallee()
			if callee == nil || callee.String() != symPkg+"Cover" || len(c.Call.Args) != 1 {
				continue
			}
			if k, ok := c.Call.Args[0].(*ssa.Const); ok && k.Value != nil {
				out = append(out, constant.StringVal(k.Value))
			}
		}
	}
	return out
}
