package main

import (
	"fmt"
	"go/types"
	"strings"
)

// World: per-path model of the committed stores (open world, lazily materialised), the environment
// log (clock readings, map orders) and ghost logs.

type LogEntry struct {
	key *BytesVal
	val *BytesVal // nil => tombstone
}

type InitEntry struct {
	id      int
	store   string
	key     *BytesVal
	present bool
	tok     *Token
	obj     Value // materialised record (once unmarshalled)
	objType types.Type
	raw     *BytesVal // raw-bytes view (counts, cursors)
	rawLen  int
	enum    *Enum
}

type Schema struct {
	store  string
	prefix string
	typ    types.Type // record type (nil for raw)
	keyFn  *FuncVal   // func(T) []byte, key after the prefix
	rawLen int        // >0: raw fixed-length value
	bound  int        // enumeration bound override
	boundSet bool
}

type Enum struct {
	store   string
	prefix  string
	entries []*InitEntry
}

type StoreState struct {
	empty bool // nothing but what this path wrote (a freshly initialised store)
	name  string
	log   []LogEntry
	init  []*InitEntry
	enums []*Enum
}

type World struct {
	stores  map[string]*StoreState
	order   []string
	schemas []*Schema
	envLog  []string
	envSyms []*Term
	nextEnt int
	clockN  int
	bankInit []BankInit
	fixStr   map[string]*Term // field name -> constant (e.g. Denom)
	invs     []*TypeInv
	bounds   map[string]int
	checkInv bool
	ghost    []GhostVerify
}

type TypeInv struct {
	typ  types.Type
	pred *FuncVal
}

func newWorld() *World {
	return &World{stores: map[string]*StoreState{}, fixStr: map[string]*Term{}, bounds: map[string]int{}}
}

func (w *World) store(name string) *StoreState {
	s, ok := w.stores[name]
	if !ok {
		s = &StoreState{name: name}
		w.stores[name] = s
		w.order = append(w.order, name)
	}
	return s
}

func (w *World) schemaFor(store string, key *BytesVal) *Schema {
	var best *Schema
	for _, sc := range w.schemas {
		if sc.store != store {
			continue
		}
		if yes, known := hasLitPrefix(key, sc.prefix); yes && known {
			if best == nil || len(sc.prefix) > len(best.prefix) {
				best = sc
			}
		}
	}
	return best
}

func (m *Machine) newInitEntry(st *StoreState, key *BytesVal, present bool) *InitEntry {
	m.w.nextEnt++
	e := &InitEntry{id: m.w.nextEnt, store: st.name, key: key, present: present}
	m.nextTok++
	e.tok = &Token{kind: "init", entry: e, id: m.nextTok}
	st.init = append(st.init, e)
	return e
}

// storeGet returns the current value under key (nil BytesVal => absent).
func (m *Machine) storeGet(store string, key *BytesVal) *BytesVal {
	return m.storeGetAt(store, key, -1)
}

// storeGetAt reads as of log position upto (-1 => now).
func (m *Machine) storeGetAt(store string, key *BytesVal, upto int) *BytesVal {
	st := m.w.store(store)
	n := len(st.log)
	if upto >= 0 && upto < n {
		n = upto
	}
	for i := n - 1; i >= 0; i-- {
		c := m.bytesEq(key, st.log[i].key)
		if m.branch(c) {
			return st.log[i].val
		}
	}
	for _, e := range st.init {
		c := m.bytesEq(key, e.key)
		if m.branch(c) {
			if !e.present {
				return nil
			}
			return m.entryValue(e)
		}
	}
	if st.empty {
		return nil
	}
	// closed-world prefixes
	for _, en := range st.enums {
		if yes, known := hasLitPrefix(key, en.prefix); known && yes {
			return nil
		} else if !known {
			m.unsupported("key with unknown relation to enumerated prefix %q", en.prefix)
		}
	}
	present := m.chooseFree(2) == 0
	e := m.newInitEntry(st, key, present)
	if !present {
		return nil
	}
	return m.entryValue(e)
}

// entryValue is what a read of a present initial entry returns: its raw bytes when the prefix is
// declared raw, otherwise an opaque token that Unmarshal turns into a typed symbolic record.
func (m *Machine) entryValue(e *InitEntry) *BytesVal {
	if sc := m.w.schemaFor(e.store, e.key); sc != nil && sc.rawLen != 0 {
		return m.rawView(e, 0)
	}
	return &BytesVal{segs: []Seg{{k: SegTok, tok: e.tok}}}
}

func (m *Machine) storeSet(store string, key, val *BytesVal) {
	if val == nil || val.isNil {
		m.goPanicf("store-nil-value", "value is nil")
	}
	if n, ok := staticLen(key); ok && n == 0 {
		m.goPanicf("store-empty-key", "key is nil or empty")
	}
	m.checkTypeInvOnWrite(val)
	st := m.w.store(store)
	st.log = append(st.log, LogEntry{key: key, val: val})
}

func (m *Machine) storeDelete(store string, key *BytesVal) {
	st := m.w.store(store)
	st.log = append(st.log, LogEntry{key: key, val: nil})
}

// materializeEntry gives the record stored in an initial entry, typed by the unmarshal target.
func (m *Machine) materializeEntry(e *InitEntry, t types.Type) Value {
	if e.obj != nil {
		if !types.Identical(types.Unalias(e.objType), types.Unalias(t)) {
			m.unsupported("initial entry unmarshalled as %s and as %s (%s)", e.objType, t, m.repoSite())
		}
		return e.obj
	}
	name := fmt.Sprintf("init%d.%s", e.id, shortType(t))
	e.obj = m.materialize(t, name)
	e.objType = t
	m.assumeTypeInv(t, e.obj)
	// keyed schema: the record's key fields agree with the key it is stored under
	if sc := m.w.schemaFor(e.store, e.key); sc != nil && sc.keyFn != nil && e.enum == nil {
		if types.Identical(types.Unalias(sc.typ), types.Unalias(t)) {
			k := m.applyKeyFn(sc, e.obj)
			m.assumeOrAbort(m.bytesEq(k, e.key))
		}
	}
	return e.obj
}

// assumeTypeInv assumes the declared single-record invariant of type t on a materialised record.
func (m *Machine) assumeTypeInv(t types.Type, obj Value) {
	for _, ti := range m.w.invs {
		if types.Identical(types.Unalias(ti.typ), types.Unalias(t)) {
			r := m.callFunction(ti.pred.fn, []Value{obj}, ti.pred.caps, "inv")
			m.assumeOrAbort(r.(*Term))
		}
	}
}

// checkTypeInvOnWrite asserts the declared invariant on a record that is being written.
func (m *Machine) checkTypeInvOnWrite(val *BytesVal) {
	if !m.w.checkInv || len(val.segs) != 1 || val.segs[0].k != SegTok || val.segs[0].tok.kind != "marshal" {
		return
	}
	tok := val.segs[0].tok
	for _, ti := range m.w.invs {
		if types.Identical(types.Unalias(ti.typ), types.Unalias(tok.typ)) {
			r := m.callFunction(ti.pred.fn, []Value{m.deepCopy(tok.val)}, ti.pred.caps, "inv")
			m.assert("inv-preserved:"+shortType(tok.typ), r.(*Term), nil)
		}
	}
}

func (m *Machine) assumeOrAbort(c *Term) {
	if c.IsConst() {
		if !c.bv {
			m.abort("assume", "schema assumption is false")
		}
		return
	}
	if !m.replaying() && m.feasible(c) == Unsat {
		m.abort("assume", "schema assumption infeasible")
	}
	m.addPC(c)
}

func (m *Machine) applyKeyFn(sc *Schema, obj Value) *BytesVal {
	r := m.callFunction(sc.keyFn.fn, []Value{obj}, sc.keyFn.caps, "schema")
	return &BytesVal{segs: normSegs(append(litSegs(sc.prefix), m.toBytes(r).segs...))}
}

func shortType(t types.Type) string {
	s := typeString(t)
	if i := strings.LastIndex(s, "."); i >= 0 {
		s = s[i+1:]
	}
	return s
}

// rawView returns the raw-bytes content of an initial entry with a declared raw schema (n = wanted
// length, 0 = schema length).
func (m *Machine) rawView(e *InitEntry, n int) *BytesVal {
	if e.raw != nil {
		return e.raw
	}
	sc := m.w.schemaFor(e.store, e.key)
	ln := n
	if sc != nil && sc.rawLen != 0 {
		ln = sc.rawLen
	}
	if ln == 0 {
		return nil
	}
	if ln < 0 {
		rs := m.freshStr(fmt.Sprintf("init%d.rawstr", e.id))
		m.addPC(m.in.Gt(m.in.StrLen(rs), m.in.I64(0))) // stored index values are never empty
		e.raw = &BytesVal{segs: []Seg{{k: SegUF, t: rs}}}
		e.rawLen = -1
		return e.raw
	}
	if ln == 8 {
		x := m.freshInt(fmt.Sprintf("init%d.raw64", e.id), intInfo{64, false})
		e.raw = &BytesVal{segs: []Seg{{k: SegBE64, t: x}}}
	} else {
		var segs []Seg
		for i := 0; i < ln; i++ {
			segs = append(segs, Seg{k: SegByte, t: m.freshInt(fmt.Sprintf("init%d.raw.%d", e.id, i), intInfo{8, false})})
		}
		e.raw = &BytesVal{segs: segs}
	}
	e.rawLen = ln
	return e.raw
}

// ---- iteration

type iterItem struct {
	key *BytesVal // key after the prefix
	val *BytesVal
}

type kvIter struct {
	items []iterItem
	pos   int
}

// enumerate makes (store,prefix) a closed world with at most N initial entries.
func (m *Machine) enumerate(st *StoreState, prefix string) *Enum {
	for _, en := range st.enums {
		if en.prefix == prefix {
			return en
		}
		if strings.HasPrefix(en.prefix, prefix) || strings.HasPrefix(prefix, en.prefix) {
			m.unsupported("nested enumerated prefixes %q / %q", en.prefix, prefix)
		}
	}
	en := &Enum{store: st.name, prefix: prefix}
	// pre-existing point-read entries under the prefix join the enumeration
	for _, e := range st.init {
		yes, known := hasLitPrefix(e.key, prefix)
		if !known {
			m.unsupported("initial entry with unknown relation to iterated prefix %q", prefix)
		}
		if yes {
			e.enum = en
			if e.present {
				en.entries = append(en.entries, e)
			}
		}
	}
	var sc *Schema
	for _, s := range m.w.schemas {
		if s.store == st.name && s.prefix == prefix {
			sc = s
		}
	}
	bound := m.eng.cfg.EnumBound
	if sc != nil && sc.boundSet {
		bound = sc.bound
	}
	room := bound - len(en.entries)
	if room < 0 {
		room = 0
	}
	n := 0
	if !st.empty {
		n = m.chooseFree(room + 1)
	}
	for j := 0; j < n; j++ {
		m.w.nextEnt++
		e := &InitEntry{id: m.w.nextEnt, store: st.name, present: true, enum: en}
		m.nextTok++
		e.tok = &Token{kind: "init", entry: e, id: m.nextTok}
		if sc != nil && sc.keyFn != nil {
			e.objType = sc.typ
			e.obj = m.materialize(sc.typ, fmt.Sprintf("init%d.%s", e.id, shortType(sc.typ)))
			m.assumeTypeInv(sc.typ, e.obj)
			e.key = m.applyKeyFn(sc, e.obj)
		} else {
			e.key = &BytesVal{segs: normSegs(append(litSegs(prefix), Seg{k: SegUF, t: m.freshStr(fmt.Sprintf("init%d.key", e.id))}))}
		}
		// distinct from every other entry of the enumeration
		for _, o := range en.entries {
			m.assumeOrAbort(m.in.Not(m.bytesEq(e.key, o.key)))
		}
		en.entries = append(en.entries, e)
		st.init = append(st.init, e)
	}
	st.enums = append(st.enums, en)
	return en
}

func stripPrefix(key *BytesVal, prefix string) *BytesVal {
	segs := normSegs(append([]Seg{}, key.segs...))
	if prefix == "" {
		return &BytesVal{segs: segs}
	}
	if len(segs) > 0 && segs[0].k == SegLit && strings.HasPrefix(segs[0].lit, prefix) {
		rest := append([]Seg{{k: SegLit, lit: segs[0].lit[len(prefix):]}}, segs[1:]...)
		return &BytesVal{segs: normSegs(rest)}
	}
	return &BytesVal{segs: segs}
}

func (m *Machine) storeIterate(store string, prefix string, reverse bool) *kvIter {
	st := m.w.store(store)
	en := m.enumerate(st, prefix)
	it := &kvIter{}
	type live struct {
		key *BytesVal
		val *BytesVal
	}
	var items []live
	// initial entries as seen through the log
	for _, e := range en.entries {
		v := m.storeGet(store, e.key)
		if v != nil {
			items = append(items, live{e.key, v})
		}
	}
	// keys written under the prefix that are not initial entries, in the order they were first written
	// (one representative order; the real order is by key, which is symbolic)
	for i := 0; i < len(st.log); i++ {
		le := st.log[i]
		yes, known := hasLitPrefix(le.key, prefix)
		if !known {
			m.unsupported("written key with unknown relation to iterated prefix %q", prefix)
		}
		if !yes {
			continue
		}
		dup := false
		for _, x := range items {
			if m.branch(m.bytesEq(x.key, le.key)) {
				dup = true
				break
			}
		}
		if dup {
			continue
		}
		// an initial entry that is absent/deleted now, or a fresh key: its current value decides
		cur := m.storeGet(store, le.key)
		if cur != nil {
			items = append(items, live{le.key, cur})
		}
	}
	for _, x := range items {
		it.items = append(it.items, iterItem{key: stripPrefix(x.key, prefix), val: x.val})
	}
	if reverse {
		for i, j := 0, len(it.items)-1; i < j; i, j = i+1, j-1 {
			it.items[i], it.items[j] = it.items[j], it.items[i]
		}
	}
	return it
}

// writtenKeys returns the de-duplicated keys written to store under prefix since log position from.
func (m *Machine) writtenKeys(store, prefix string, from int) []*BytesVal {
	st := m.w.store(store)
	var out []*BytesVal
	for i := from; i < len(st.log); i++ {
		k := st.log[i].key
		yes, known := hasLitPrefix(k, prefix)
		if !known {
			m.unsupported("written key with unknown relation to prefix %q", prefix)
		}
		if !yes {
			continue
		}
		dup := false
		for _, o := range out {
			if m.branch(m.bytesEq(o, k)) {
				dup = true
				break
			}
		}
		if !dup {
			out = append(out, k)
		}
	}
	return out
}
