package main

import (
	"fmt"
	"go/types"
	"math/big"
	"regexp"
	"strings"

	"golang.org/x/tools/go/ssa"
)

const sdkTypes = "github.com/cosmos/cosmos-sdk/types"

// ---- handles: store / iterator objects reached through interfaces

func (m *Machine) storeHandle(name string) Value {
	h := &Handle{kind: "kvstore", name: name}
	return &IfaceVal{t: m.eng.handleType(), v: h}
}

func (e *Engine) handleType() types.Type {
	// any named non-interface type works as the dynamic type tag of engine handles
	return e.pkgs[harnessPath+"/sym"].Type("Handle").Type()
}

// prefixOf decodes a prefix.Store struct value (or raw handle) into (store name, literal prefix).
func (m *Machine) storeAndPrefix(v Value) (string, *BytesVal) {
	switch x := v.(type) {
	case *StructVal: // prefix.Store{parent, prefix}
		name, pp := m.storeAndPrefix(x.f[0])
		pb := m.toBytes(x.f[1])
		return name, &BytesVal{segs: normSegs(append(append([]Seg{}, pp.segs...), pb.segs...))}
	case *IfaceVal:
		if h, ok := x.v.(*Handle); ok && h.kind == "kvstore" {
			return h.name, &BytesVal{}
		}
		if sv, ok := x.v.(*StructVal); ok {
			return m.storeAndPrefix(sv)
		}
	case *Handle:
		if x.kind == "kvstore" {
			return x.name, &BytesVal{}
		}
	}
	m.unsupported("not a store: %s", describe(v))
	return "", nil
}

func (m *Machine) fullKey(prefix *BytesVal, key Value) *BytesVal {
	kb := m.toBytes(key)
	return &BytesVal{segs: normSegs(append(append([]Seg{}, prefix.segs...), kb.segs...))}
}

func litOf(b *BytesVal) (string, bool) {
	segs := normSegs(append([]Seg{}, b.segs...))
	if len(segs) == 0 {
		return "", true
	}
	if len(segs) == 1 && segs[0].k == SegLit {
		return segs[0].lit, true
	}
	return "", false
}

func (m *Machine) valOrNil(b *BytesVal) Value {
	if b == nil {
		return &BytesVal{isNil: true}
	}
	return b
}

func (m *Machine) makeIter(store string, prefix *BytesVal, sub Value, reverse bool) Value {
	full := m.fullKey(prefix, sub)
	lit, ok := litOf(full)
	if !ok {
		m.unsupported("iteration over a symbolic prefix at %s", m.repoSite())
	}
	it := m.storeIterate(store, lit, reverse)
	// keys are reported relative to the prefix store's own prefix
	plit, _ := litOf(prefix)
	extra := strings.TrimPrefix(lit, plit)
	if extra != "" {
		for i := range it.items {
			it.items[i].key = &BytesVal{segs: normSegs(append(litSegs(extra), it.items[i].key.segs...))}
		}
	}
	return &IfaceVal{t: m.eng.handleType(), v: &Handle{kind: "kviter", obj: it}}
}

func (m *Machine) handleMethod(h *Handle, name string, args []Value) Value {
	switch h.kind {
	case "kvstore":
		switch name {
		case "Get":
			return m.valOrNil(m.storeGet(h.name, m.toBytes(args[0])))
		case "Has":
			return m.in.Bool(m.storeGet(h.name, m.toBytes(args[0])) != nil)
		case "Set":
			m.storeSet(h.name, m.toBytes(args[0]), m.toBytes(args[1]))
			return nil
		case "Delete":
			m.storeDelete(h.name, m.toBytes(args[0]))
			return nil
		case "Iterator":
			return m.makeIter(h.name, &BytesVal{}, args[0], false)
		case "ReverseIterator":
			return m.makeIter(h.name, &BytesVal{}, args[0], true)
		}
	case "kviter":
		it := h.obj.(*kvIter)
		switch name {
		case "Valid":
			return m.in.Bool(it.pos < len(it.items))
		case "Next":
			if it.pos >= len(it.items) {
				m.goPanicf("iterator-invalid", "Next on invalid iterator")
			}
			it.pos++
			return nil
		case "Key":
			if it.pos >= len(it.items) {
				m.goPanicf("iterator-invalid", "Key on invalid iterator")
			}
			return it.items[it.pos].key
		case "Value":
			if it.pos >= len(it.items) {
				m.goPanicf("iterator-invalid", "Value on invalid iterator")
			}
			return it.items[it.pos].val
		case "Close":
			return nilIface
		case "Error":
			return nilIface
		}
	}
	m.unsupported("method %s on handle %s", name, h.kind)
	return nil
}

// ---- codec

func (m *Machine) marshalTok(v Value) *BytesVal {
	iv, ok := v.(*IfaceVal)
	if !ok || iv.t == nil {
		m.goPanicf("nil-deref", "marshal of nil message")
	}
	p := m.force(iv.v).(Pointer)
	if p.cell == nil {
		m.goPanicf("nil-deref", "marshal of nil message pointer")
	}
	obj := m.load(p)
	m.nextTok++
	tok := &Token{kind: "marshal", typ: under(iv.t).(*types.Pointer).Elem(), val: m.deepCopy(obj), id: m.nextTok}
	return &BytesVal{segs: []Seg{{k: SegTok, tok: tok}}}
}

// unmarshalInto fills *ptr from bz. returns false when bz is not a serialised record we understand.
func (m *Machine) unmarshalInto(bz Value, ptr Value) bool {
	iv := ptr.(*IfaceVal)
	p := m.force(iv.v).(Pointer)
	et := under(iv.t).(*types.Pointer).Elem()
	b := m.toBytes(bz)
	if len(b.segs) == 1 && b.segs[0].k == SegTok {
		tok := b.segs[0].tok
		switch tok.kind {
		case "marshal":
			if !types.Identical(types.Unalias(tok.typ), types.Unalias(et)) {
				return false
			}
			m.store(p, m.deepCopy(tok.val))
			return true
		case "init":
			if tok.entry.raw != nil {
				return false
			}
			if tok.entry.obj != nil && !types.Identical(types.Unalias(tok.entry.objType), types.Unalias(et)) {
				return false
			}
			obj := m.materializeEntry(tok.entry, et)
			m.store(p, m.deepCopy(obj))
			return true
		}
	}
	return false
}

func init() {
	// prefix store
	reg("github.com/cosmos/cosmos-sdk/store/prefix.NewStore", func(m *Machine, fn *ssa.Function, a []Value) Value {
		return &StructVal{f: []Value{a[0], m.toBytes(a[1])}}
	})
	P := "(github.com/cosmos/cosmos-sdk/store/prefix.Store)."
	reg(P+"Get", func(m *Machine, fn *ssa.Function, a []Value) Value {
		s, p := m.storeAndPrefix(a[0])
		return m.valOrNil(m.storeGet(s, m.fullKey(p, a[1])))
	})
	reg(P+"Has", func(m *Machine, fn *ssa.Function, a []Value) Value {
		s, p := m.storeAndPrefix(a[0])
		return m.in.Bool(m.storeGet(s, m.fullKey(p, a[1])) != nil)
	})
	reg(P+"Set", func(m *Machine, fn *ssa.Function, a []Value) Value {
		s, p := m.storeAndPrefix(a[0])
		m.storeSet(s, m.fullKey(p, a[1]), m.toBytes(a[2]))
		return nil
	})
	reg(P+"Delete", func(m *Machine, fn *ssa.Function, a []Value) Value {
		s, p := m.storeAndPrefix(a[0])
		m.storeDelete(s, m.fullKey(p, a[1]))
		return nil
	})
	reg(P+"Iterator", func(m *Machine, fn *ssa.Function, a []Value) Value {
		s, p := m.storeAndPrefix(a[0])
		return m.makeIter(s, p, a[1], false)
	})
	reg(P+"ReverseIterator", func(m *Machine, fn *ssa.Function, a []Value) Value {
		s, p := m.storeAndPrefix(a[0])
		return m.makeIter(s, p, a[1], true)
	})
	reg(sdkTypes+".KVStorePrefixIterator", func(m *Machine, fn *ssa.Function, a []Value) Value {
		s, p := m.storeAndPrefix(a[0])
		return m.makeIter(s, p, a[1], false)
	})
	reg(sdkTypes+".KVStoreReversePrefixIterator", func(m *Machine, fn *ssa.Function, a []Value) Value {
		s, p := m.storeAndPrefix(a[0])
		return m.makeIter(s, p, a[1], true)
	})
	// ctx.KVStore(key)
	reg("("+sdkTypes+".Context).KVStore", func(m *Machine, fn *ssa.Function, a []Value) Value {
		kv := a[1].(*IfaceVal)
		if kv.t == nil {
			m.goPanicf("nil-deref", "KVStore with nil store key")
		}
		p := m.force(kv.v).(Pointer)
		if p.cell == nil {
			m.goPanicf("nil-deref", "KVStore with nil store key pointer")
		}
		sv := m.load(p).(*StructVal)
		return m.storeHandle(m.constStr(sv.f[0], "store key name"))
	})
	reg("("+sdkTypes+".Context).BlockHeader", func(m *Machine, fn *ssa.Function, a []Value) Value {
		ctx := a[0].(*StructVal)
		return ctx.f[m.eng.ctxField("header")]
	})
	reg(sdkTypes+".WrapSDKContext", func(m *Machine, fn *ssa.Function, a []Value) Value {
		return &IfaceVal{t: fn.Signature.Params().At(0).Type(), v: a[0]}
	})
	reg(sdkTypes+".UnwrapSDKContext", func(m *Machine, fn *ssa.Function, a []Value) Value {
		iv := a[0].(*IfaceVal)
		if iv.t == nil {
			m.goPanicf("nil-deref", "UnwrapSDKContext(nil)")
		}
		return iv.v
	})
	reg("(*"+sdkTypes+".EventManager).EmitTypedEvent", func(m *Machine, fn *ssa.Function, a []Value) Value {
		return nilIface
	})
	reg("(*"+sdkTypes+".EventManager).EmitTypedEvents", func(m *Machine, fn *ssa.Function, a []Value) Value {
		return nilIface
	})

	// codec (harness type SymCodec implements codec.BinaryCodec)
	C := "(" + harnessPath + ".SymCodec)."
	reg(C+"MustMarshal", func(m *Machine, fn *ssa.Function, a []Value) Value { return m.marshalTok(a[1]) })
	reg(C+"Marshal", func(m *Machine, fn *ssa.Function, a []Value) Value {
		return TupleVal{m.marshalTok(a[1]), nilIface}
	})
	reg(C+"MustUnmarshal", func(m *Machine, fn *ssa.Function, a []Value) Value {
		if !m.unmarshalInto(a[1], a[2]) {
			m.goPanicf("unmarshal", "MustUnmarshal of bytes that are not a record of the target type")
		}
		return nil
	})
	reg(C+"Unmarshal", func(m *Machine, fn *ssa.Function, a []Value) Value {
		if !m.unmarshalInto(a[1], a[2]) {
			return m.newError(m.in.Str("proto: cannot unmarshal"))
		}
		return nilIface
	})
	// proposal.Marshal() of generated messages: opaque token of the message snapshot
	// (registered lazily by name pattern in callFunction: see protoMarshalIntrinsic)

	// cosmossdk.io/errors
	E := "cosmossdk.io/errors."
	reg(E+"Register", func(m *Machine, fn *ssa.Function, a []Value) Value {
		et := m.eng.pkgs["cosmossdk.io/errors"].Type("Error").Type()
		c := m.newCell(et, 1, "sdkerror")
		st := under(et).(*types.Struct)
		f := make([]Value, st.NumFields())
		for i := range f {
			f[i] = m.zero(st.Field(i).Type())
		}
		f[0], f[1], f[2] = a[0], a[1], a[2]
		c.elems[0] = &StructVal{f: f}
		return Pointer{cell: c}
	})
	wrap := func(m *Machine, fn *ssa.Function, a []Value) Value {
		iv := a[0].(*IfaceVal)
		if iv.t == nil || isNilValue(m.force(iv.v)) {
			return nilIface
		}
		return iv
	}
	reg(E+"Wrap", wrap)
	reg(E+"Wrapf", wrap)
	reg("(*cosmossdk.io/errors.Error).Wrap", func(m *Machine, fn *ssa.Function, a []Value) Value {
		return &IfaceVal{t: fn.Signature.Recv().Type(), v: a[0]}
	})
	reg("(*cosmossdk.io/errors.Error).Wrapf", func(m *Machine, fn *ssa.Function, a []Value) Value {
		return &IfaceVal{t: fn.Signature.Recv().Type(), v: a[0]}
	})
	reg("(*cosmossdk.io/errors.Error).Is", func(m *Machine, fn *ssa.Function, a []Value) Value {
		iv := a[1].(*IfaceVal)
		if iv.t == nil {
			return m.in.Bool(isNilValue(a[0]))
		}
		return m.equal(a[0], iv.v, nil)
	})
	reg(E+"IsOf", func(m *Machine, fn *ssa.Function, a []Value) Value {
		r := m.in.Bool(false)
		for _, t := range m.variadicArgs(a[1]) {
			r = m.in.Or(r, m.equal(a[0], t, nil))
		}
		return r
	})

	// addresses
	reg(sdkTypes+".AccAddressFromBech32", func(m *Machine, fn *ssa.Function, a []Value) Value {
		return m.fromBech32(a[0].(*Term), "acc")
	})
	reg(sdkTypes+".ValAddressFromBech32", func(m *Machine, fn *ssa.Function, a []Value) Value {
		return m.fromBech32(a[0].(*Term), "val")
	})
	str := func(kind string) intrinsicFn {
		return func(m *Machine, fn *ssa.Function, a []Value) Value {
			b := m.toBytes(a[0])
			segs := normSegs(append([]Seg{}, b.segs...))
			if len(segs) == 0 {
				return m.in.Str("")
			}
			if len(segs) == 1 && segs[0].k == SegAddr {
				return segs[0].t
			}
			return m.in.UF("bech32_"+kind, SString, m.bytesToStr(b))
		}
	}
	reg("("+sdkTypes+".AccAddress).String", str("acc"))
	reg("("+sdkTypes+".ValAddress).String", str("val"))
	reg("bytes.Equal", func(m *Machine, fn *ssa.Function, a []Value) Value {
		return m.bytesEq(m.toBytes(a[0]), m.toBytes(a[1]))
	})
	reg("github.com/cosmos/cosmos-sdk/x/auth/types.NewModuleAddress", func(m *Machine, fn *ssa.Function, a []Value) Value {
		return m.moduleAddr(m.constStr(a[0], "module name"))
	})
	reg("github.com/ipfs/go-cid.Decode", func(m *Machine, fn *ssa.Function, a []Value) Value {
		ok := m.in.UF("validcid", SBool, a[0].(*Term))
		m.noteUF("validcid", a[0].(*Term))
		m.addPC(m.in.Implies(ok, m.in.Eq(m.in.StrLen(a[0].(*Term)), m.in.I64(59))))
		ct := fn.Signature.Results().At(0).Type()
		if m.branch(ok) {
			return TupleVal{m.zero(ct), nilIface}
		}
		return TupleVal{m.zero(ct), m.newError(m.in.Str("invalid cid"))}
	})
	reg("github.com/multiformats/go-multiaddr.NewMultiaddr", func(m *Machine, fn *ssa.Function, a []Value) Value {
		ok := m.in.UF("validmultiaddr", SBool, a[0].(*Term))
		if m.branch(ok) {
			return TupleVal{nilIface, nilIface} // the parsed address itself is never used
		}
		return TupleVal{nilIface, m.newError(m.in.Str("invalid multiaddr"))}
	})
	reg(sdkTypes+".ValidateDenom", func(m *Machine, fn *ssa.Function, a []Value) Value {
		d := a[0].(*Term)
		if d.IsConst() {
			if denomRe.MatchString(d.sv) {
				return nilIface
			}
			return m.newError(m.in.Str("invalid denom: " + d.sv))
		}
		ok := m.in.UF("validdenom", SBool, d)
		m.addPC(m.in.Implies(ok, m.in.Ge(m.in.StrLen(d), m.in.I64(3))))
		if m.branch(ok) {
			return nilIface
		}
		return m.newError(m.in.Str("invalid denom"))
	})

	// decimals from strings: constants are parsed exactly; symbolic strings get an uninterpreted value
	// and validity flag (realised as a real decimal string for native replay)
	reg(sdkTypes+".NewDecFromStr", func(m *Machine, fn *ssa.Function, a []Value) Value {
		dt := fn.Signature.Results().At(0).Type()
		mk := func(t *Term) Value { return &StructVal{f: []Value{m.newBig(t)}} }
		s := a[0].(*Term)
		if s.IsConst() {
			v, ok := parseDec18(s.sv)
			if !ok {
				return TupleVal{m.zeroDec(dt), m.newError(m.in.Str("failed to set decimal string"))}
			}
			return TupleVal{mk(m.in.Int(v)), nilIface}
		}
		valid := m.in.UF("validdec", SBool, s)
		m.noteUF("validdec", s)
		if m.branch(valid) {
			z := m.in.UF("decof", SInt, s)
			if b := m.eng.cfg.BigAbsBound; b != nil {
				m.addPC(m.in.And(m.in.Le(m.in.Int(new(big.Int).Neg(b)), z), m.in.Le(z, m.in.Int(b))))
			}
			m.addPC(m.in.Gt(m.in.StrLen(s), m.in.I64(0)))
			return TupleVal{mk(z), nilIface}
		}
		return TupleVal{m.zeroDec(dt), m.newError(m.in.Str("failed to set decimal string"))}
	})
	reg("("+sdkTypes+".Dec).MustFloat64", func(m *Machine, fn *ssa.Function, a []Value) Value {
		sv := a[0].(*StructVal)
		p := m.force(sv.f[0]).(Pointer)
		if p.cell == nil {
			m.goPanicf("nil-deref", "MustFloat64 on nil Dec")
		}
		z := m.bigGet(p)
		return m.in.RDiv(m.in.ToReal(z), m.in.Real(new(big.Rat).SetInt(pow10big(18))))
	})
	reg(sdkTypes+".ParseCoinNormalized", func(m *Machine, fn *ssa.Function, a []Value) Value {
		s := a[0].(*Term)
		if !s.IsConst() {
			m.unsupported("ParseCoinNormalized of a symbolic string")
		}
		i := 0
		for i < len(s.sv) && s.sv[i] >= '0' && s.sv[i] <= '9' {
			i++
		}
		ct := fn.Signature.Results().At(0).Type()
		if i == 0 || i == len(s.sv) {
			return TupleVal{m.zero(ct), m.newError(m.in.Str("invalid decimal coin expression"))}
		}
		amt, _ := new(big.Int).SetString(s.sv[:i], 10)
		coin := &StructVal{f: []Value{m.in.Str(s.sv[i:]), &StructVal{f: []Value{m.newBig(m.in.Int(amt))}}}}
		return TupleVal{coin, nilIface}
	})

	// fork-free summaries of the SDK's decimal rounding helpers (they mutate and return their argument)
	reg(sdkTypes+".chopPrecisionAndRound", func(m *Machine, fn *ssa.Function, a []Value) Value {
		d := m.bigGet(a[0])
		one18 := m.in.Int(pow10big(18))
		half := m.in.Int(new(big.Int).Div(pow10big(18), big.NewInt(2)))
		abs := m.absT(d)
		q, r := m.in.Div(abs, one18), m.in.Mod(abs, one18)
		up := m.in.Or(m.in.Gt(r, half), m.in.And(m.in.Eq(r, half), m.in.Eq(m.in.Mod(q, m.in.I64(2)), m.in.I64(1))))
		res := m.in.Ite(up, m.in.Add(q, m.in.I64(1)), q)
		res = m.in.Ite(m.in.Lt(d, m.in.I64(0)), m.in.Neg(res), res)
		return m.bigSet(a[0], res)
	})
	reg(sdkTypes+".chopPrecisionAndRoundUp", func(m *Machine, fn *ssa.Function, a []Value) Value {
		d := m.bigGet(a[0])
		one18 := m.in.Int(pow10big(18))
		abs := m.absT(d)
		q, r := m.in.Div(abs, one18), m.in.Mod(abs, one18)
		pos := m.in.Ite(m.in.Eq(r, m.in.I64(0)), q, m.in.Add(q, m.in.I64(1)))
		res := m.in.Ite(m.in.Lt(d, m.in.I64(0)), m.in.Neg(q), pos)
		return m.bigSet(a[0], res)
	})
	reg("("+sdkTypes+".Dec).Ceil", func(m *Machine, fn *ssa.Function, a []Value) Value {
		sv := a[0].(*StructVal)
		z := m.bigGet(sv.f[0])
		one18 := m.in.Int(pow10big(18))
		q, r := m.in.TQuo(z, one18), m.in.TRem(z, one18)
		res := m.in.Ite(m.in.Gt(r, m.in.I64(0)), m.in.Add(q, m.in.I64(1)), q)
		return &StructVal{f: []Value{m.newBig(m.in.Mul(res, one18))}}
	})

	// params subspace
	S := "(github.com/cosmos/cosmos-sdk/x/params/types.Subspace)."
	reg(symPkg+"Subspace", func(m *Machine, fn *ssa.Function, a []Value) Value {
		name := m.constStr(a[0], "subspace name")
		iv := a[1].(*IfaceVal)
		m.paramProto[name] = iv.t
		st := m.eng.pkgs["github.com/cosmos/cosmos-sdk/x/params/types"].Type("Subspace").Type()
		sv := m.zero(st).(*StructVal)
		f := append([]Value{}, sv.f...)
		stt := under(st).(*types.Struct)
		for i := 0; i < stt.NumFields(); i++ {
			if stt.Field(i).Name() == "name" {
				f[i] = &BytesVal{segs: litSegs(name)}
			}
		}
		return &StructVal{f: f}
	})
	reg(S+"HasKeyTable", func(m *Machine, fn *ssa.Function, a []Value) Value { return m.in.Bool(true) })
	reg(S+"WithKeyTable", func(m *Machine, fn *ssa.Function, a []Value) Value { return a[0] })
	reg(S+"GetParamSet", func(m *Machine, fn *ssa.Function, a []Value) Value {
		name := m.subspaceName(a[0])
		c := m.paramCell(name)
		p := m.force(a[2].(*IfaceVal).v).(Pointer)
		m.store(p, m.deepCopy(c.elems[0]))
		return nil
	})
	reg(S+"SetParamSet", func(m *Machine, fn *ssa.Function, a []Value) Value {
		name := m.subspaceName(a[0])
		p := m.force(a[2].(*IfaceVal).v).(Pointer)
		m.paramCell(name).elems[0] = m.deepCopy(m.load(p))
		return nil
	})
	reg(S+"Get", func(m *Machine, fn *ssa.Function, a []Value) Value {
		name := m.subspaceName(a[0])
		key, ok := litOf(m.toBytes(a[2]))
		if !ok {
			m.unsupported("param key not literal")
		}
		fp := m.paramField(name, key)
		dst := m.force(a[3].(*IfaceVal).v).(Pointer)
		m.store(dst, m.deepCopy(m.load(fp)))
		return nil
	})
	reg(S+"Set", func(m *Machine, fn *ssa.Function, a []Value) Value {
		name := m.subspaceName(a[0])
		key, ok := litOf(m.toBytes(a[2]))
		if !ok {
			m.unsupported("param key not literal")
		}
		fp := m.paramField(name, key)
		m.store(fp, m.deepCopy(a[3].(*IfaceVal).v))
		return nil
	})
}

var denomRe = regexp.MustCompile(`^[a-zA-Z][a-zA-Z0-9/:._-]{2,127}$`)

func pow10big(n int) *big.Int { return new(big.Int).Exp(big.NewInt(10), big.NewInt(int64(n)), nil) }

// parseDec18 parses a decimal string into its 18-decimals integer representation (sdk.NewDecFromStr).
func parseDec18(s string) (*big.Int, bool) {
	if s == "" {
		return nil, false
	}
	neg := false
	if s[0] == '-' {
		neg = true
		s = s[1:]
	}
	if s == "" {
		return nil, false
	}
	parts := strings.Split(s, ".")
	if len(parts) > 2 || parts[0] == "" {
		return nil, false
	}
	frac := ""
	if len(parts) == 2 {
		frac = parts[1]
		if frac == "" || len(frac) > 18 {
			return nil, false
		}
	}
	for len(frac) < 18 {
		frac += "0"
	}
	v, ok := new(big.Int).SetString(parts[0]+frac, 10)
	if !ok {
		return nil, false
	}
	if neg {
		v.Neg(v)
	}
	return v, true
}

func (m *Machine) zeroDec(t types.Type) Value {
	return &StructVal{f: []Value{Pointer{}}}
}

func (e *Engine) ctxField(name string) int {
	ct := e.pkgs[sdkTypes].Type("Context").Type()
	st := under(ct).(*types.Struct)
	for i := 0; i < st.NumFields(); i++ {
		if st.Field(i).Name() == name {
			return i
		}
	}
	panic("no Context field " + name)
}

func (m *Machine) moduleAddr(name string) Value {
	s := m.in.Str("mod:" + name)
	return &BytesVal{segs: []Seg{{k: SegAddr, t: s}}}
}

func (m *Machine) fromBech32(s *Term, kind string) Value {
	// empty / whitespace-only
	if s.IsConst() {
		if strings.HasPrefix(s.sv, "mod:") {
			return TupleVal{&BytesVal{segs: []Seg{{k: SegAddr, t: s}}}, nilIface}
		}
	}
	valid := m.in.UF("validbech32_"+kind, SBool, s)
	m.noteUF("validbech32_"+kind, s)
	// valid addresses are 20-byte addresses with the chain's prefix (stated assumption)
	hrp, ln := m.eng.app.prefix()+"1", 39+len(m.eng.app.prefix())
	if kind == "val" {
		hrp, ln = m.eng.app.prefix()+"valoper1", 46+len(m.eng.app.prefix())
	}
	m.addPC(m.in.Implies(valid, m.in.And(m.in.Eq(m.in.StrLen(s), m.in.I64(int64(ln))), m.in.StrPrefixOf(m.in.Str(hrp), s))))
	// user-supplied strings never denote module accounts (no key exists for them)
	m.addPC(m.in.Not(m.in.StrPrefixOf(m.in.Str("mod:"), s)))
	if m.branch(valid) {
		return TupleVal{&BytesVal{segs: []Seg{{k: SegAddr, t: s}}}, nilIface}
	}
	return TupleVal{&BytesVal{isNil: true}, m.newError(m.in.Str("decoding bech32 failed"))}
}

func (m *Machine) subspaceName(v Value) string {
	sv := v.(*StructVal)
	for _, f := range sv.f {
		if b, ok := f.(*BytesVal); ok {
			if l, ok := litOf(b); ok && l != "" {
				return l
			}
		}
	}
	m.unsupported("subspace without a name (not created by sym.Subspace)")
	return ""
}

func (m *Machine) paramCell(name string) *Cell {
	if c, ok := m.paramCells[name]; ok {
		return c
	}
	pt, ok := m.paramProto[name]
	if !ok {
		m.unsupported("params of unknown subspace %s", name)
	}
	et := under(pt).(*types.Pointer).Elem()
	c := m.newCell(et, 1, "params:"+name)
	c.elems[0] = m.materialize(et, "params."+name)
	m.paramCells[name] = c
	m.paramInit[name] = c.elems[0]
	return c
}

// paramField finds the pointer to the field of subspace `name` registered under key.
func (m *Machine) paramField(name, key string) Pointer {
	c := m.paramCell(name)
	pt := m.paramProto[name]
	var psp *ssa.Function
	m.eng.methodMu.Lock()
	ms := m.eng.prog.MethodSets.MethodSet(pt)
	for i := 0; i < ms.Len(); i++ {
		if ms.At(i).Obj().Name() == "ParamSetPairs" {
			psp = m.eng.prog.MethodValue(ms.At(i))
		}
	}
	m.eng.methodMu.Unlock()
	if psp == nil {
		m.unsupported("no ParamSetPairs on %s", pt)
	}
	pairs := m.sliceOf(m.callFunction(psp, []Value{Pointer{cell: c}}, nil, "params"))
	for i := 0; i < pairs.len; i++ {
		pair := pairs.cell.elems[pairs.off+i].(*StructVal)
		k, _ := litOf(m.toBytes(pair.f[0]))
		if k == key {
			return m.force(pair.f[1].(*IfaceVal).v).(Pointer)
		}
	}
	m.goPanicf("params", "parameter %s not registered in subspace %s", key, name)
	return Pointer{}
}

func dbgVal(m *Machine, v Value) string { return fmt.Sprint(describe(v)) }
