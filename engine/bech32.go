package main

// minimal bech32 encoder (BIP-173) used to turn model strings that the path treats as valid
// addresses into real addresses for native replay.

import "strings"

const bech32Charset = "qpzry9x8gf2tvdw0s3jn54khce6mua7l"

func bech32Polymod(values []byte) uint32 {
	gen := []uint32{0x3b6a57b2, 0x26508e6d, 0x1ea119fa, 0x3d4233dd, 0x2a1462b3}
	chk := uint32(1)
	for _, v := range values {
		b := chk >> 25
		chk = (chk&0x1ffffff)<<5 ^ uint32(v)
		for i := 0; i < 5; i++ {
			if (b>>uint(i))&1 == 1 {
				chk ^= gen[i]
			}
		}
	}
	return chk
}

func bech32HrpExpand(hrp string) []byte {
	var out []byte
	for i := 0; i < len(hrp); i++ {
		out = append(out, hrp[i]>>5)
	}
	out = append(out, 0)
	for i := 0; i < len(hrp); i++ {
		out = append(out, hrp[i]&31)
	}
	return out
}

func convertBits8to5(data []byte) []byte {
	acc, bits := uint32(0), uint(0)
	var out []byte
	for _, b := range data {
		acc = acc<<8 | uint32(b)
		bits += 8
		for bits >= 5 {
			bits -= 5
			out = append(out, byte(acc>>bits)&31)
		}
	}
	if bits > 0 {
		out = append(out, byte(acc<<(5-bits))&31)
	}
	return out
}

func bech32Encode(hrp string, data []byte) string {
	d5 := convertBits8to5(data)
	values := append(bech32HrpExpand(hrp), d5...)
	values = append(values, 0, 0, 0, 0, 0, 0)
	pm := bech32Polymod(values) ^ 1
	var sb strings.Builder
	sb.WriteString(hrp)
	sb.WriteByte('1')
	for _, v := range d5 {
		sb.WriteByte(bech32Charset[v])
	}
	for i := 0; i < 6; i++ {
		sb.WriteByte(bech32Charset[(pm>>uint(5*(5-i)))&31])
	}
	return sb.String()
}

func genAddress(hrp string, n int) string {
	data := make([]byte, 20)
	data[0] = 0xA0
	data[18] = byte(n >> 8)
	data[19] = byte(n)
	return bech32Encode(hrp, data)
}
