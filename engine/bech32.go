package main

// minimal bech32 encoder (BIP-173) used to turn model strings that the path treats as valid
// addresses into real addresses for native replay.

import (
	"encoding/hex"
	"strings"
)

const bech32Charset = "qpzry9x8gf2tvdw0s3jn54khce6mua7l"

func bech32Polymod(values []byte) uint32 {
	gen := []uint32{0x3b6a57b2, 0x26508e6d, 0x1ea119fa, 0x3d4233dd, 0x2a1462b3}
	chk := uint32(1)
	for _, v := range values {
		b := chk >> 25
		chk = (chk&0x1ffffff)<<5 ^ uint32(v)
		for i := 0; i < 5; i++ {
			if (b>>uint(i))&1 == 1 {
				chk ^= gen[i]
			}
		}
	}
	return chk
}

func bech32HrpExpand(hrp string) []byte {
	var out []byte
	for i := 0; i < len(hrp); i++ {
		out = append(out, hrp[i]>>5)
	}
	out = append(out, 0)
	for i := 0; i < len(hrp); i++ {
		out = append(out, hrp[i]&31)
	}
	return out
}

func convertBits8to5(data []byte) []byte {
	acc, bits := uint32(0), uint(0)
	var out []byte
	for _, b := range data {
		acc = acc<<8 | uint32(b)
		bits += 8
		for bits >= 5 {
			bits -= 5
			out = append(out, byte(acc>>bits)&31)
		}
	}
	if bits > 0 {
		out = append(out, byte(acc<<(5-bits))&31)
	}
	return out
}

func bech32Encode(hrp string, data []byte) string {
	d5 := convertBits8to5(data)
	values := append(bech32HrpExpand(hrp), d5...)
	values = append(values, 0, 0, 0, 0, 0, 0)
	pm := bech32Polymod(values) ^ 1
	var sb strings.Builder
	sb.WriteString(hrp)
	sb.WriteByte('1')
	for _, v := range d5 {
		sb.WriteByte(bech32Charset[v])
	}
	for i := 0; i < 6; i++ {
		sb.WriteByte(bech32Charset[(pm>>uint(5*(5-i)))&31])
	}
	return sb.String()
}

// keyTable: addresses of secp256k1.GenPrivKeyFromSecret("verif-key-<n>"), n = 1..16, so that the native replay
// can sign for the first sixteen account addresses of a counterexample (binding proofs).
var keyTable = []string{
	"3be743f55b8863475531c542cfc9bd08008bc624", "d2ab4a9d15fe5692728bb0634bb944b24d3982ad",
	"bcfb9e446c6dacd9352a4e5f5012d26d01785ce7", "8b52880e2997a2476bdb51acab0b528a578958a1",
	"2c6ccf95ad70992fe32596e433356b3666449e93", "8f5bd247cfaa3c423fe69077e904f6759913a6b5",
	"83eed8bc212538aee9ab9613581d4b91c4ecd9c5", "f1c225f48d4d199d451adb74b129adbb62619175",
	"7c29d1c29adbf4d4d15cb6839c6efc479822f61d", "beea46fb9c6abbc6aaaecbbf095cb0d06b8ebafe",
	"b4ae5935c235a407a610a7ddccdc870a5ee4d398", "ce73341a408f54f037470d99e73b3d1cdbbb1305",
	"304cb98c8f53f5cfa9cb858e2f8fdbfa80d36d93", "3a126490a8ae1b5f9b5b06aed75f9dd3c3fcf8f8",
	"789e7fd87cafb7c70763f22690edd36d5e3084b5", "fd4c507feeb9d18e86314ae7587532a5318edfea",
}

func genAddress(hrp string, n int) string {
	if !strings.HasSuffix(hrp, "valoper") && n >= 1 && n <= len(keyTable) {
		b, _ := hex.DecodeString(keyTable[n-1])
		return bech32Encode(hrp, b)
	}
	data := make([]byte, 20)
	data[0] = 0xA0
	data[18] = byte(n >> 8)
	data[19] = byte(n)
	return bech32Encode(hrp, data)
}
