package main

import (
	"fmt"
	"go/types"
	"math/big"
	"os"
	"path/filepath"
	"runtime"
	"sort"
	"strings"
	"sync"
	"time"

	"golang.org/x/tools/go/packages"
	"golang.org/x/tools/go/ssa"
	"golang.org/x/tools/go/ssa/ssautil"
)

type Config struct {
	Tier        string
	Unwind      int // loop iterations per loop entry
	MaxMake     int
	MaxStrCells int
	EnumBound   int // N: entries of an iterated prefix
	SliceBound  int // default bound for slices in materialised records
	MaxMapPerm  int
	StepLimit   int
	PathLimit   int
	QueryMs     int
	Workers     int
	ObTimeoutS  int
	BigAbsBound *big.Int
	Bounds      map[string]int // per-field slice bounds (suffix match on materialisation name)
}

func defaultConfig(tier string) *Config {
	c := &Config{Tier: tier, Unwind: 24, MaxMake: 64, MaxStrCells: 4, EnumBound: 3, SliceBound: 1, MaxMapPerm: 3,
		StepLimit: 2_000_000, PathLimit: 60000, QueryMs: 20000, Workers: 16, ObTimeoutS: 600, Bounds: map[string]int{}}
	c.BigAbsBound = new(big.Int).Lsh(big.NewInt(1), 100)
	if tier == "thorough" {
		c.EnumBound = 4
		c.SliceBound = 2
		c.QueryMs = 120000
		c.PathLimit = 200000
		c.Unwind = 40
		c.ObTimeoutS = 3600
	}
	return c
}

type Engine struct {
	prog       *ssa.Program
	pkgs       map[string]*ssa.Package
	cfg        *Config
	bigIntType types.Type
	byteType   types.Type
	harnessPkg *ssa.Package
	methodMu   sync.Mutex
	execPrefix []string
	loadSecs   float64
	mutableG   map[*ssa.Global]bool
	app        *AppInfo
	forkSites  map[string]int
	forkMu     sync.Mutex
}

func (e *Engine) noteFork(site string) {
	e.forkMu.Lock()
	e.forkSites[site]++
	e.forkMu.Unlock()
}

func (e *Engine) boundFor(name string) int {
	best := -1
	bl := 0
	for k, v := range e.cfg.Bounds {
		if strings.HasSuffix(name, k) && len(k) > bl {
			best, bl = v, len(k)
		}
	}
	if best >= 0 {
		return best
	}
	return e.cfg.SliceBound
}

const harnessPath = "github.com/SaoNetwork/sao/zzverif"

// loadProgram loads /repo plus the overlay harness package and builds SSA.
func loadProgram(repo, harnessDir string, cfg *Config) (*Engine, error) {
	t0 := time.Now()
	overlay := map[string][]byte{}
	err := filepath.Walk(harnessDir, func(p string, info os.FileInfo, err error) error {
		if err != nil {
			return err
		}
		if info.IsDir() || !strings.HasSuffix(p, ".go") || strings.HasSuffix(p, "registry_gen.go") || strings.HasSuffix(p, "_test.go") {
			return nil // the registry and the replay test are only needed by the native build
		}
		rel, _ := filepath.Rel(harnessDir, p)
		b, err := os.ReadFile(p)
		if err != nil {
			return err
		}
		overlay[filepath.Join(repo, "zzverif", rel)] = b
		return nil
	})
	if err != nil {
		return nil, err
	}
	// in-package verif files (unexported access), e.g. inpkg/node_keeper_verif.go -> /repo/x/node/keeper/zz_verif_node_keeper_verif.go
	inpkg := filepath.Join(filepath.Dir(harnessDir), "inpkg")
	if ents, err := os.ReadDir(inpkg); err == nil {
		for _, e := range ents {
			if !strings.HasSuffix(e.Name(), ".go") {
				continue
			}
			parts := strings.SplitN(e.Name(), "_", 3) // <module>_<pkgdir>_...
			if len(parts) < 3 {
				continue
			}
			b, err := os.ReadFile(filepath.Join(inpkg, e.Name()))
			if err != nil {
				return nil, err
			}
			overlay[filepath.Join(repo, "x", parts[0], parts[1], "zz_verif_"+e.Name())] = b
		}
	}
	pc := &packages.Config{
		Mode:       packages.LoadAllSyntax,
		Dir:        repo,
		Overlay:    overlay,
		BuildFlags: []string{"-tags=verif gosym"},
		Env:        append(os.Environ(), "GOFLAGS=-mod=mod", "GOPROXY=off", "GOSUMDB=off", "GOTOOLCHAIN=local"),
	}
	pkgs, err := packages.Load(pc, harnessPath+"/...")
	if err != nil {
		return nil, err
	}
	nerr := 0
	packages.Visit(pkgs, nil, func(p *packages.Package) {
		for _, e := range p.Errors {
			if strings.HasPrefix(p.PkgPath, "github.com/SaoNetwork/sao") {
				fmt.Fprintln(os.Stderr, "load error:", e)
				nerr++
			}
		}
	})
	if nerr > 0 {
		return nil, fmt.Errorf("%d load errors in repo/harness packages", nerr)
	}
	prog, _ := ssautil.AllPackages(pkgs, ssa.InstantiateGenerics)
	eng := &Engine{prog: prog, pkgs: map[string]*ssa.Package{}, cfg: cfg, mutableG: map[*ssa.Global]bool{}, app: &AppInfo{repo: repo}}
	go eng.app.load()
	for _, p := range prog.AllPackages() {
		eng.pkgs[p.Pkg.Path()] = p
	}
	// build only what we execute (lazily for the rest)
	for path, p := range eng.pkgs {
		if strings.HasPrefix(path, "github.com/SaoNetwork/sao") {
			p.Build()
		}
	}
	eng.harnessPkg = eng.pkgs[harnessPath]
	if eng.harnessPkg == nil {
		return nil, fmt.Errorf("harness package not loaded")
	}
	if bp := eng.pkgs["math/big"]; bp != nil {
		eng.bigIntType = bp.Type("Int").Type()
	}
	eng.byteType = types.Typ[types.Uint8]
	eng.execPrefix = []string{
		"github.com/SaoNetwork/sao/",
		"github.com/cosmos/cosmos-sdk/types",
		"cosmossdk.io/math",
		"cosmossdk.io/errors",
		"github.com/cosmos/cosmos-sdk/types/errors",
		"github.com/pkg/errors",
		"errors",
		"sort",
		"github.com/tendermint/tendermint/abci/types",
		"github.com/cosmos/cosmos-sdk/x/staking/types",
		"github.com/cosmos/cosmos-sdk/x/params/types",
		"github.com/cosmos/cosmos-sdk/store/types",
		"github.com/cosmos/cosmos-sdk/x/auth/types",
	}
	// build every package the engine may execute up front (lazy building from several workers races)
	for path, p := range eng.pkgs {
		if eng.execPath(path) || !eng.skipInit(path) {
			p.Build()
		}
	}
	eng.findMutableGlobals()
	eng.loadSecs = time.Since(t0).Seconds()
	return eng, nil
}

func (e *Engine) findMutableGlobals() {
	for path, p := range e.pkgs {
		if !strings.HasPrefix(path, "github.com/SaoNetwork/sao/x/") && !strings.HasPrefix(path, "github.com/SaoNetwork/sao/app") {
			continue
		}
		for _, mem := range p.Members {
			fn, ok := mem.(*ssa.Function)
			if !ok {
				continue
			}
			e.scanStores(fn)
		}
		for _, mem := range p.Members {
			if t, ok := mem.(*ssa.Type); ok {
				ms := e.prog.MethodSets.MethodSet(t.Type())
				for i := 0; i < ms.Len(); i++ {
					if f := e.prog.MethodValue(ms.At(i)); f != nil {
						e.scanStores(f)
					}
				}
				ms = e.prog.MethodSets.MethodSet(types.NewPointer(t.Type()))
				for i := 0; i < ms.Len(); i++ {
					if f := e.prog.MethodValue(ms.At(i)); f != nil {
						e.scanStores(f)
					}
				}
			}
		}
	}
}

func (e *Engine) scanStores(fn *ssa.Function) {
	if fn == nil || fn.Name() == "init" || strings.HasPrefix(fn.Name(), "init#") {
		return
	}
	for _, b := range fn.Blocks {
		for _, ins := range b.Instrs {
			if st, ok := ins.(*ssa.Store); ok {
				if g, ok := st.Addr.(*ssa.Global); ok {
					e.mutableG[g] = true
				}
			}
		}
	}
	for _, af := range fn.AnonFuncs {
		e.scanStores(af)
	}
}

func (e *Engine) executable(fn *ssa.Function) bool {
	if fn.Pkg == nil {
		// synthetic wrappers / instantiated generics: decide by origin package
		if o := fn.Origin(); o != nil && o.Pkg != nil {
			return e.execPath(o.Pkg.Pkg.Path())
		}
		if fn.Synthetic != "" {
			return true // wrappers, bound methods, thunks
		}
		if p := fn.Parent(); p != nil {
			return e.executable(p)
		}
		return false
	}
	return e.execPath(fn.Pkg.Pkg.Path())
}

func (e *Engine) execPath(path string) bool {
	for _, p := range e.execPrefix {
		if path == p || strings.HasPrefix(path, p) {
			return true
		}
	}
	return false
}

func (e *Engine) skipInit(path string) bool {
	// package initialisers that are executed (in init mode: calls across the boundary return zero values)
	if strings.HasPrefix(path, "github.com/SaoNetwork/sao/") {
		return false
	}
	switch path {
	case "github.com/cosmos/cosmos-sdk/types", "cosmossdk.io/math", "cosmossdk.io/errors", "github.com/cosmos/cosmos-sdk/types/errors",
		"github.com/cosmos/cosmos-sdk/x/staking/types", "github.com/cosmos/cosmos-sdk/x/params/types":
		return false
	}
	return true
}

func (e *Engine) lookupMethod(t types.Type, meth *types.Func) *ssa.Function {
	e.methodMu.Lock()
	defer e.methodMu.Unlock()
	ms := e.prog.MethodSets.MethodSet(t)
	sel := ms.Lookup(meth.Pkg(), meth.Name())
	if sel == nil {
		return nil
	}
	return e.prog.MethodValue(sel)
}

func (e *Engine) implements(t types.Type, it *types.Interface) bool {
	e.methodMu.Lock()
	defer e.methodMu.Unlock()
	return types.Implements(t, it)
}

func firstEngineFrames(st string) string {
	var out []string
	for _, l := range strings.Split(st, "\n") {
		if strings.Contains(l, "/verif/engine/") {
			out = append(out, strings.TrimSpace(l))
			if len(out) >= 8 {
				break
			}
		}
	}
	return strings.Join(out, " <- ")
}

// ---- exploration

type Obligation struct {
	Name  string
	Fn    *ssa.Function
	Props []string
}

type ObResult struct {
	Name        string
	Paths       int
	PathsOK     int
	PathsPanic  int
	Aborts      map[string]int
	AbortSample map[string]string
	Covers      map[string]int
	Violations  []*Violation
	Incon       []string
	Forks       int
	SymPaths    int
	Samples     []string
	Funcs       map[string]int
	WallS       float64
	PathLimited bool
	Spurious    []string
}

func (e *Engine) newMachine() *Machine {
	in := NewInterner()
	in.nlUF = true
	m := &Machine{eng: e, in: in, sol: NewSolver(in, e.cfg.QueryMs), globals: map[*ssa.Global]*Cell{}, initDone: map[*ssa.Package]bool{}, gsnap: map[*ssa.Global]Value{}}
	return m
}

func (m *Machine) resetPath(prefix []int) {
	m.pc = nil
	m.pcSet = map[int]bool{}
	m.prefix = prefix
	m.pos = 0
	m.trace = nil
	m.alts = nil
	m.nextSym = 0
	m.nextTok = 0
	m.steps = 0
	m.depth = 0
	m.frame = nil
	m.stepLimit = m.eng.cfg.StepLimit
	m.w = newWorld()
	m.res = &PathResult{}
	m.funcs = map[string]int{}
	m.nondets = nil
	m.loopCount = map[*ssa.BasicBlock]int{}
	// package initialisers run once per worker; globals written by non-init code restart from their
	// declared (post-init) value on every path
	for g, v := range m.gsnap {
		if c, ok := m.globals[g]; ok {
			c.elems[0] = m.deepCopy(v)
		}
	}
	m.in.nlUF = !m.forceExact
	m.snaps = nil
	m.paramProto = map[string]types.Type{}
	m.paramCells = map[string]*Cell{}
	m.paramInit = map[string]Value{}
	m.pathVars = nil
	m.ufArgs = nil
	m.splitMemo = nil
	m.sigChecks = nil
	m.realise = nil
	m.payloads = nil
}

// runPath executes one path of an obligation for the given decision prefix.
func (m *Machine) runPath(ob *Obligation, prefix []int) (res *PathResult, alts [][]int) {
	m.resetPath(prefix)
	res = m.res
	defer func() {
		if r := recover(); r != nil {
			switch x := r.(type) {
			case *pathAbort:
				res.End = "abort:" + x.kind
				res.Reason = x.reason
			case *goPanic:
				res.End = "panic"
				res.Reason = fmt.Sprintf("%s at %s: %s", x.kind, x.site, m.panicText(x))
				m.onUncaughtPanic(x)
			default:
				// engine-internal failure: never silently lose the path
				buf := make([]byte, 1<<14)
				n := runtime.Stack(buf, false)
				res.End = "abort:unsupported"
				res.Reason = fmt.Sprintf("ENGINE PANIC: %v at %s\n%s", r, m.repoSite(), firstEngineFrames(string(buf[:n])))
			}
		}
		res.Trace = append([]int{}, m.trace...)
		res.Steps = m.steps
		res.Funcs = m.funcs
		for _, c := range m.pc {
			if c.nsym {
				res.SymPC = true
				break
			}
		}
		res.PCSample = m.pcSample()
		alts = m.alts
	}()
	m.callFn(ob.Fn, nil, nil, "harness")
	res.End = "ok"
	return
}

func (m *Machine) panicText(x *goPanic) string {
	switch v := x.val.(type) {
	case *Term:
		return m.in.Show(v)
	case *IfaceVal:
		if v.t != nil {
			if t, ok := v.v.(*Term); ok {
				return m.in.Show(t)
			}
			if et := m.errorText(v); et != nil {
				return typeString(v.t) + ": " + m.in.Show(et)
			}
			return typeString(v.t)
		}
	}
	return ""
}

func (e *Engine) explore(ob *Obligation) *ObResult {
	t0 := time.Now()
	r := &ObResult{Name: ob.Name, Aborts: map[string]int{}, AbortSample: map[string]string{}, Covers: map[string]int{}, Funcs: map[string]int{}}
	var mu sync.Mutex
	work := [][]int{{}} // global pool; workers keep their own DFS stacks and donate when the pool runs dry
	active := 0
	idle := 0
	cond := sync.NewCond(&mu)
	seenViol := map[string]int{}
	nw := e.cfg.Workers
	var wg sync.WaitGroup
	stopProg := make(chan struct{})
	go func() {
		tk := time.NewTicker(15 * time.Second)
		defer tk.Stop()
		for {
			select {
			case <-stopProg:
				return
			case <-tk.C:
				mu.Lock()
				fmt.Fprintf(os.Stderr, "  .. %s: %.0fs paths=%d pool=%d active=%d ok=%d aborts=%v viol=%d\n", ob.Name, time.Since(t0).Seconds(), r.Paths, len(work), active, r.PathsOK, r.Aborts, len(r.Violations))
				mu.Unlock()
			}
		}
	}()
	defer close(stopProg)
	stop := false
	for w := 0; w < nw; w++ {
		wg.Add(1)
		go func() {
			defer wg.Done()
			m := e.newMachine()
			defer m.sol.Close()
			var local [][]int
			for {
				var p []int
				mu.Lock()
				if r.Paths >= e.cfg.PathLimit || time.Since(t0).Seconds() > float64(e.cfg.ObTimeoutS) {
					if !stop && (len(work) > 0 || len(local) > 0 || active > 0) {
						r.PathLimited = true
					}
					stop = true
				}
				if stop {
					mu.Unlock()
					cond.Broadcast()
					return
				}
				if len(local) > 0 {
					p = local[len(local)-1]
					local = local[:len(local)-1]
					// donate the shallowest local item when others are starving
					if len(work) == 0 && idle > 0 && len(local) > 0 {
						work = append(work, local[0])
						local = local[1:]
						cond.Broadcast()
					}
				} else {
					for len(work) == 0 && active > 0 && !stop {
						idle++
						cond.Wait()
						idle--
					}
					if stop || (len(work) == 0 && active == 0) {
						mu.Unlock()
						cond.Broadcast()
						return
					}
					p = work[len(work)-1]
					work = work[:len(work)-1]
				}
				active++
				r.Paths++
				mu.Unlock()

				res, alts := m.runPath(ob, p)
				local = append(local, alts...)

				mu.Lock()
				active--
				if len(work) == 0 && idle > 0 && len(local) > 1 {
					work = append(work, local[0])
					local = local[1:]
				}
				switch {
				case res.End == "ok":
					r.PathsOK++
				case res.End == "panic":
					r.PathsPanic++
				default:
					r.Aborts[res.End]++
					if _, ok := r.AbortSample[res.End]; !ok || res.End == "abort:unsupported" {
						r.AbortSample[res.End] = res.Reason
					}
				}
				for _, c := range res.Covers {
					r.Covers[c]++
				}
				for _, v := range res.Violations {
					key := v.Label + "|" + v.Kind + "|" + v.Site + "|" + strings.Join(v.KFs, ",") + fmt.Sprint(v.Outside)
					// up to three counterexamples per assertion: alternates for the native replay (models differ)
					if seenViol[key] < 3 {
						seenViol[key]++
						r.Violations = append(r.Violations, v)
					}
				}
				r.Incon = append(r.Incon, res.Incon...)
				r.Forks += res.Forks
				if res.SymPC {
					r.SymPaths++
				}
				if len(r.Samples) < 3 && res.End == "ok" && res.PCSample != "" {
					r.Samples = append(r.Samples, res.PCSample)
				}
				for k, v := range res.Funcs {
					r.Funcs[k] += v
				}
				mu.Unlock()
				cond.Broadcast()
			}
		}()
	}
	wg.Wait()
	// counterexample refinement: a violation found under the uninterpreted-product abstraction is
	// re-derived on the same path with exact multiplication, so that its model replays natively
	// (unsat there = the abstraction's artefact, dropped; unknown = the abstract model is kept)
	if len(r.Violations) > 0 {
		m := e.newMachine()
		m.forceExact = true
		m.sol.tlimit = 120000
		var kept []*Violation
		for _, v := range r.Violations {
			if !v.usedNL {
				kept = append(kept, v)
				continue
			}
			res, _ := m.runPath(ob, v.Trace)
			found, incon := false, false
			for _, v2 := range res.Violations {
				if v2.Label == v.Label && v2.Kind == v.Kind && v2.Outside == v.Outside && strings.Join(v2.KFs, ",") == strings.Join(v.KFs, ",") {
					v2.refined = "exact"
					kept = append(kept, v2)
					found = true
					break
				}
			}
			for _, s := range res.Incon {
				if strings.Contains(s, v.Label) || strings.Contains(s, "unknown") {
					incon = true
				}
			}
			if !found {
				if incon {
					v.refined = "abstract-model(exact query unknown)"
					kept = append(kept, v)
				} else {
					r.Spurious = append(r.Spurious, fmt.Sprintf("%s/%s at %s: unsat with exact multiplication", v.Label, v.Kind, v.Site))
				}
			}
		}
		m.sol.Close()
		r.Violations = kept
	}
	r.WallS = time.Since(t0).Seconds()
	sort.Strings(r.Incon)
	return r
}
